//! C18: scene export vs. the harness' own computation of the replicated state.
use bevy::{prelude::*, scene::DynamicScene, scene::serde::SceneDeserializer};
use bevy_replicon::{prelude::*, scene};
use replicon_verif::util::*;
use serde::{Deserialize, Serialize, de::DeserializeSeed};
use serde_json::json;
use std::{
    collections::{BTreeMap, BTreeSet},
    panic::{AssertUnwindSafe, catch_unwind},
};

macro_rules! comp {
    ($n:ident) => {
        #[derive(Component, Serialize, Deserialize, Clone, Copy, PartialEq, Debug, Reflect, Default)]
        #[reflect(Component)]
        struct $n(u32);
    };
}
comp!(A);
comp!(B);
comp!(C);
// registered under a reflection type path that differs from its Rust type name
#[derive(Component, Serialize, Deserialize, Clone, Copy, PartialEq, Debug, Reflect, Default)]
#[reflect(Component)]
#[type_path = "verif_custom_path"]
#[type_name = "D"]
struct D(u32);
// reflected but not registered in the type registry
#[derive(Component, Serialize, Deserialize, Clone, Copy, PartialEq, Debug, Reflect, Default)]
#[reflect(Component)]
struct Unreg(u32);
// not reflected at all
#[derive(Component, Serialize, Deserialize, Clone, Copy, PartialEq, Debug, Default)]
struct Plain(u32);
// registered without #[reflect(Component)]
#[derive(Component, Serialize, Deserialize, Clone, Copy, PartialEq, Debug, Reflect, Default)]
struct NoRc(u32);
// reflected, registered, not replicated
#[derive(Component, Clone, Copy, PartialEq, Debug, Reflect, Default)]
#[reflect(Component)]
struct Local(u32);

const NAMES: [&str; 7] = ["A", "B", "C", "D", "Unreg", "Plain", "NoRc"];

struct Case {
    desc: Vec<String>,
    errs: Vec<String>,
    overlapping: bool,
    checks: u64,
}

fn val_of(c: &Box<dyn PartialReflect>) -> u32 {
    if let bevy::reflect::ReflectRef::TupleStruct(ts) = c.reflect_ref() {
        ts.field(0).and_then(|f| f.try_downcast_ref::<u32>()).copied().unwrap_or(u32::MAX)
    } else {
        u32::MAX
    }
}

fn run_case(seed: u64) -> Case {
    let mut rng = Rng::new(seed);
    let mut case = Case { desc: vec![], errs: vec![], overlapping: false, checks: 0 };
    let mut app = App::new();
    app.add_plugins((MinimalPlugins, RepliconPlugins))
        .register_type::<A>()
        .register_type::<B>()
        .register_type::<C>()
        .register_type::<D>()
        .register_type::<NoRc>()
        .register_type::<Local>();
    // random rule set (no duplicates of the same rule)
    let mut rules: Vec<Vec<u8>> = vec![];
    let mut used = BTreeSet::new();
    for _ in 0..(1 + rng.below(6)) {
        let k = rng.below(14);
        if !used.insert(k) {
            continue;
        }
        let (name, comps): (&str, Vec<u8>) = match k {
            0 => {
                app.replicate::<A>();
                ("replicate::<A>", vec![0])
            }
            1 => {
                app.replicate::<B>();
                ("replicate::<B>", vec![1])
            }
            2 => {
                app.replicate::<C>();
                ("replicate::<C>", vec![2])
            }
            3 => {
                app.replicate_bundle::<(A, B)>();
                ("replicate_bundle::<(A,B)>", vec![0, 1])
            }
            4 => {
                app.replicate_bundle::<(B, C, D)>();
                ("replicate_bundle::<(B,C,D)>", vec![1, 2, 3])
            }
            5 => {
                app.replicate_with_priority(5, (RuleFns::<A>::default(), RuleFns::<C>::default()));
                ("replicate_with_priority(5,(A,C))", vec![0, 2])
            }
            6 => {
                app.replicate::<Unreg>();
                ("replicate::<Unreg>", vec![4])
            }
            7 => {
                app.replicate::<Plain>();
                ("replicate::<Plain>", vec![5])
            }
            8 => {
                app.replicate_bundle::<(A, Unreg)>();
                ("replicate_bundle::<(A,Unreg)>", vec![0, 4])
            }
            9 => {
                app.replicate_once::<D>();
                ("replicate_once::<D>", vec![3])
            }
            10 => {
                app.replicate::<NoRc>();
                ("replicate::<NoRc>", vec![6])
            }
            // bundles that list a component that cannot be exported BEFORE a reflected one
            12 => {
                app.replicate_bundle::<(Unreg, B)>();
                ("replicate_bundle::<(Unreg,B)>", vec![4, 1])
            }
            13 => {
                app.replicate_bundle::<(NoRc, C)>();
                ("replicate_bundle::<(NoRc,C)>", vec![6, 2])
            }
            _ => {
                app.replicate_with_priority(0, (RuleFns::<C>::default(), RuleFns::<D>::default()));
                ("replicate_with_priority(0,(C,D))", vec![2, 3])
            }
        };
        case.desc.push(format!("rule {name}"));
        rules.push(comps);
    }
    for (i, a) in rules.iter().enumerate() {
        for b in &rules[i + 1..] {
            if a.iter().any(|k| b.contains(k)) {
                case.overlapping = true;
            }
        }
    }
    app.finish();
    // sometimes the world has a past: entities that are gone, whose slots the live entities reuse with
    // the next generation (an older export of the scene may still name the old incarnations)
    let mut stale: Vec<Entity> = vec![];
    if rng.below(3) == 0 {
        let gone: Vec<Entity> = (0..1 + rng.below(3)).map(|_| app.world_mut().spawn_empty().id()).collect();
        for e in &gone {
            app.world_mut().entity_mut(*e).despawn();
        }
        stale = gone;
    }
    let mut expected: BTreeMap<Entity, BTreeMap<u8, u32>> = BTreeMap::new();
    let mut unmarked: Vec<Entity> = vec![];
    for _ in 0..(1 + rng.below(7)) {
        let marked = rng.below(4) != 0;
        let mut e = app.world_mut().spawn_empty();
        let mut have: BTreeMap<u8, u32> = BTreeMap::new();
        let v = rng.below(1000) as u32;
        if rng.below(2) == 0 {
            e.insert(A(v));
            have.insert(0, v);
        }
        if rng.below(2) == 0 {
            e.insert(B(v + 1));
            have.insert(1, v + 1);
        }
        if rng.below(2) == 0 {
            e.insert(C(v + 2));
            have.insert(2, v + 2);
        }
        if rng.below(2) == 0 {
            e.insert(D(v + 3));
            have.insert(3, v + 3);
        }
        if rng.below(3) == 0 {
            e.insert(Unreg(v));
            have.insert(4, v);
        }
        if rng.below(3) == 0 {
            e.insert(Plain(v));
            have.insert(5, v);
        }
        if rng.below(4) == 0 {
            e.insert(NoRc(v));
            have.insert(6, v);
        }
        if rng.below(3) == 0 {
            e.insert(Local(v));
        }
        if marked {
            e.insert(Replicated);
        }
        // a disabled entity (hidden from ordinary queries) is still marked for replication
        let disabled = rng.below(5) == 0;
        if disabled {
            e.insert(bevy::ecs::entity_disabling::Disabled);
        }
        let id = e.id();
        let names: Vec<&str> = have.keys().map(|k| NAMES[*k as usize]).collect();
        case.desc.push(format!("entity {id} marked={marked} disabled={disabled} components={names:?}"));
        if marked {
            // the harness' own computation: a component is selected iff some rule containing it
            // has all of its components present; only reflected + registered kinds are exportable
            let mut sel = BTreeMap::new();
            for r in &rules {
                if r.iter().all(|k| have.contains_key(k)) {
                    for k in r {
                        if *k < 4 {
                            sel.insert(*k, have[k]);
                        }
                    }
                }
            }
            expected.insert(id, sel);
        } else {
            unmarked.push(id);
        }
    }
    let mut sc = DynamicScene::default();
    // pre-existing content: an unrelated entity and/or one of the marked entities with an unreplicated component
    let mut pre_local: BTreeSet<Entity> = BTreeSet::new();
    let mut unrelated: Option<Entity> = None;
    if rng.below(2) == 0 {
        // any subset of the marked entities, in arbitrary order
        let mut pre: Vec<Entity> = expected.keys().copied().filter(|_| rng.below(2) == 0).collect();
        for i in (1..pre.len()).rev() {
            pre.swap(i, rng.below(i + 1));
        }
        for e in pre {
            sc.entities.push(bevy::scene::DynamicEntity { entity: e, components: vec![Box::new(Local(7)).into_partial_reflect()] });
            pre_local.insert(e);
            case.desc.push(format!("scene already contains {e} with Local"));
        }
    }
    if rng.below(3) == 0 {
        let e = Entity::from_raw(5000 + rng.below(100) as u32);
        let at = rng.below(sc.entities.len() + 1);
        sc.entities.insert(at, bevy::scene::DynamicEntity { entity: e, components: vec![Box::new(Local(9)).into_partial_reflect()] });
        unrelated = Some(e);
        case.desc.push(format!("scene already contains unrelated {e} at position {at}"));
    }
    let mut stale_in_scene: BTreeSet<Entity> = BTreeSet::new();
    for e in &stale {
        if rng.below(2) == 0 {
            let at = rng.below(sc.entities.len() + 1);
            sc.entities.insert(at, bevy::scene::DynamicEntity { entity: *e, components: vec![Box::new(Local(5)).into_partial_reflect()] });
            stale_in_scene.insert(*e);
            case.desc.push(format!("scene already contains {e}, an earlier incarnation of a slot that is in use again, at position {at}"));
        }
    }
    let r = catch_unwind(AssertUnwindSafe(|| scene::replicate_into(&mut sc, app.world())));
    if r.is_err() {
        case.errs.push(format!("replicate_into panicked: {}", take_panic().unwrap_or_default()));
        return case;
    }
    let mut seen: BTreeMap<Entity, usize> = BTreeMap::new();
    for de in &sc.entities {
        *seen.entry(de.entity).or_default() += 1;
        case.checks += 1;
        let mut uniq = BTreeSet::new();
        for c in &de.components {
            let p = c.reflect_type_path().to_string();
            if !uniq.insert(p.clone()) {
                case.errs.push(format!("scene entity {} holds component {p} twice", de.entity));
            }
        }
        if Some(de.entity) == unrelated || stale_in_scene.contains(&de.entity) {
            if de.components.len() != 1 {
                case.errs.push(format!("unrelated scene entity {} was modified", de.entity));
            }
            continue;
        }
        let Some(exp) = expected.get(&de.entity) else {
            case.errs.push(format!("scene contains {} which is not marked for replication", de.entity));
            continue;
        };
        let mut got: BTreeMap<u8, u32> = BTreeMap::new();
        for c in &de.components {
            let p = c.reflect_type_path();
            if p.ends_with("::A") {
                got.insert(0, val_of(c));
            } else if p.ends_with("::B") {
                got.insert(1, val_of(c));
            } else if p.ends_with("::C") {
                got.insert(2, val_of(c));
            } else if p.ends_with("::D") {
                got.insert(3, val_of(c));
            } else if p.ends_with("::Local") {
                if !pre_local.contains(&de.entity) {
                    case.errs.push(format!("{} exported the unreplicated component Local", de.entity));
                }
            } else {
                case.errs.push(format!("{} exported {p} (marker or unexportable component)", de.entity));
            }
        }
        if &got != exp {
            let f = |m: &BTreeMap<u8, u32>| m.iter().map(|(k, v)| format!("{}({v})", NAMES[*k as usize])).collect::<Vec<_>>();
            case.errs.push(format!("{}: exported {:?}, the rules select {:?}", de.entity, f(&got), f(exp)));
        }
    }
    for e in expected.keys() {
        if seen.get(e) != Some(&1) {
            case.errs.push(format!("marked {e} appears {} times in the scene", seen.get(e).copied().unwrap_or(0)));
        }
    }
    for e in &unmarked {
        if seen.contains_key(e) {
            case.errs.push(format!("unmarked {e} exported"));
        }
    }
    let registry = app.world().resource::<AppTypeRegistry>().read();
    match sc.serialize(&registry) {
        Err(e) => case.errs.push(format!("serializing the exported scene failed: {e}")),
        Ok(s) => {
            let mut de = bevy::asset::ron::Deserializer::from_str(&s).unwrap();
            match (SceneDeserializer { type_registry: &registry }).deserialize(&mut de) {
                Err(e) => case.errs.push(format!("reading the serialized scene back failed: {e}")),
                Ok(back) => {
                    if back.entities.len() != sc.entities.len() {
                        case.errs.push(format!("read back {} entities, exported {}", back.entities.len(), sc.entities.len()));
                    }
                    for de in &back.entities {
                        if let Some(exp) = expected.get(&de.entity) {
                            let n = de.components.iter().filter(|c| !c.reflect_type_path().ends_with("::Local")).count();
                            if n != exp.len() {
                                case.errs.push(format!("{} read back with {n} replicated components, expected {}", de.entity, exp.len()));
                            }
                        }
                    }
                }
            }
        }
    }
    case
}

fn main() {
    let args = Args::from_env();
    quiet_panics();
    if let Some(seed) = args.get("--replay") {
        let c = run_case(seed.parse().unwrap());
        for d in &c.desc {
            println!("  {d}");
        }
        for e in &c.errs {
            println!("VIOLATION [C18]: {e}");
        }
        return;
    }
    let from: u64 = args.num("--from", 0);
    let to: u64 = args.num("--to", 0);
    let out = args.get("--out").expect("--out").to_string();
    let replay_dir = args.get("--replay-dir").unwrap_or("/verif/replays").to_string();
    let mut res = ShardResult::default();
    for seed in from..to {
        let c = run_case(seed);
        res.runs += 1;
        res.obs.add("scene_entities_checked", c.checks);
        if c.overlapping {
            res.obs.inc("worlds_with_overlapping_rules");
            let h = fnv64(c.desc.join(";").as_bytes());
            if res.nontrivial.insert(h) && res.samples.len() < 2 {
                res.samples.push(json!({"seed": seed, "world": c.desc}));
            }
        }
        if !c.errs.is_empty() {
            let path = format!("{replay_dir}/C18-s{seed}.json");
            write_json(&path, &json!({"engine": "c18", "seed": seed, "world": c.desc, "violations": c.errs}));
            for e in c.errs.iter().take(3) {
                res.violations.push(json!({"props": ["C18"], "seed": seed, "msg": e, "replay": path}));
            }
        }
    }
    let mut j = res.to_json();
    j["harness_errors"] = json!([]);
    j["rule"] = json!("one case = one seed-determined world: 1..6 distinct rules out of 14 (single, bundle, custom-priority tuple, once; over reflected+registered, reflected-unregistered, unreflected and registered-without-ReflectComponent types), 1..7 entities with random component subsets (3/4 marked), optionally a scene pre-populated with an unrelated entity, earlier incarnations (previous generation) of slots that live entities reuse, and/or a marked entity carrying an unreplicated component; the export is compared with the harness' own rule evaluation, serialized and read back; non-trivial = at least two rules share a component type; distinct = distinct world description");
    write_json(&out, &j);
}
