//! C13: one app driven through singleplayer / listen server / client / dedicated server and the
//! transitions between them; every event must be handled through exactly one path.
use bevy::{prelude::*, time::TimeUpdateStrategy};
use bevy_replicon::prelude::*;
use replicon_verif::{util::*, wire};
use serde::{Deserialize, Serialize};
use serde_json::json;
use std::{
    collections::BTreeMap,
    panic::{AssertUnwindSafe, catch_unwind},
    time::Duration,
};

#[derive(Event, Serialize, Deserialize, Clone, Debug)]
struct CEv(u32);
#[derive(Event, Serialize, Deserialize, Clone, Debug)]
struct CTrig(u32);
#[derive(Event, Serialize, Deserialize, Clone, Debug)]
struct SEv(u32);
#[derive(Event, Serialize, Deserialize, Clone, Debug)]
struct STrig(u32);
#[derive(Event, Serialize, Deserialize, Clone, Debug)]
struct SInd(u32);
#[derive(Event, Serialize, Deserialize, Clone, Debug)]
struct SIndT(u32);

/// (kind, seq, sender, trigger target)
#[derive(Resource, Default)]
struct Log(Vec<(&'static str, u32, Option<Entity>, Option<Entity>)>);
/// What game logic placed in `Update` sees (one frame after a `PostUpdate` re-emission).
#[derive(Resource, Default)]
struct UpdateLog(Vec<(&'static str, u32)>);

/// Client-direction emissions that the game performs from inside `Update` of the next frame.
#[derive(Resource, Default)]
struct Outbox {
    cev: Vec<u32>,
    ctrig: Vec<(u32, Option<Entity>)>,
}

fn mk(dedicated: bool, auth: AuthMethod) -> App {
    let mut app = App::new();
    let plugins = RepliconPlugins
        .set(RepliconSharedPlugin { auth_method: auth })
        .set(ServerPlugin { tick_policy: TickPolicy::EveryFrame, ..Default::default() });
    if dedicated {
        app.add_plugins((MinimalPlugins, plugins.build().disable::<ClientPlugin>().disable::<ClientEventPlugin>()));
    } else {
        app.add_plugins((MinimalPlugins, plugins));
    }
    app.insert_resource(TimeUpdateStrategy::ManualDuration(Duration::from_millis(10)))
        .init_resource::<Log>()
        .init_resource::<UpdateLog>()
        .init_resource::<Outbox>()
        .add_systems(Update, |mut o: ResMut<Outbox>, mut w: EventWriter<CEv>, mut commands: Commands| {
            for s in o.cev.drain(..) {
                w.write(CEv(s));
            }
            for (s, t) in o.ctrig.drain(..) {
                match t {
                    Some(t) => commands.client_trigger_targets(CTrig(s), t),
                    None => commands.client_trigger(CTrig(s)),
                }
            }
        })
        .add_systems(
            Update,
            (
                |mut r: EventReader<FromClient<CEv>>, mut l: ResMut<UpdateLog>| {
                    for e in r.read() {
                        l.0.push(("CEv", e.event.0));
                    }
                },
                |mut r: EventReader<SEv>, mut l: ResMut<UpdateLog>| {
                    for e in r.read() {
                        l.0.push(("SEv", e.0));
                    }
                },
            ),
        )
        .add_client_event::<CEv>(Channel::Ordered)
        .add_client_trigger::<CTrig>(Channel::Ordered)
        .add_server_event::<SEv>(Channel::Ordered)
        .add_server_trigger::<STrig>(Channel::Ordered)
        .add_server_event::<SInd>(Channel::Ordered)
        .make_event_independent::<SInd>()
        .add_server_trigger::<SIndT>(Channel::Ordered)
        .make_trigger_independent::<SIndT>()
        .add_systems(Last, |mut r: EventReader<SInd>, mut l: ResMut<Log>| {
            for e in r.read() {
                l.0.push(("SInd", e.0, None, None));
            }
        })
        .add_observer(|t: Trigger<SIndT>, mut l: ResMut<Log>| {
            l.0.push(("SIndT", t.event().0, None, Some(t.target())));
        })
        .add_systems(
            Last,
            (
                |mut r: EventReader<FromClient<CEv>>, mut l: ResMut<Log>| {
                    for e in r.read() {
                        l.0.push(("CEv", e.event.0, Some(e.client), None));
                    }
                },
                |mut r: EventReader<SEv>, mut l: ResMut<Log>| {
                    for e in r.read() {
                        l.0.push(("SEv", e.0, None, None));
                    }
                },
            ),
        )
        .add_observer(|t: Trigger<FromClient<CTrig>>, mut l: ResMut<Log>| {
            l.0.push(("CTrig", t.event().event.0, Some(t.event().client), Some(t.target())));
        })
        .add_observer(|t: Trigger<STrig>, mut l: ResMut<Log>| {
            l.0.push(("STrig", t.event().0, None, Some(t.target())));
        });
    app.finish();
    app
}

#[derive(Clone, Copy, PartialEq, Debug)]
enum St {
    Disconnected,
    Connecting,
    Connected,
}

#[derive(Clone, Debug)]
struct Exp {
    kind: &'static str,
    local: u32,
    remote: u32,
    /// observations by readers placed in `Update`
    local_update: u32,
    /// exactly one local observation is promised
    must_local: bool,
    /// exactly one remote send is promised
    must_remote: bool,
    /// local observation would be wrong (server not among the recipients)
    no_local: bool,
    /// emitted towards clients by an app that was itself a client (no local server): must not be
    /// observed while the app stays one
    client_emitted: bool,
    /// ... but the app has been singleplayer for a frame since (the buffered event is then handled
    /// locally, and a re-emitted trigger is observed one frame later)
    was_singleplayer_since: bool,
    target: Option<Entity>,
}

struct Case {
    cfg: String,
    log: Vec<String>,
    errs: Vec<String>,
    transitions: u32,
    events: u32,
    checks: u64,
    failed_attempt_events: u64,
    client_emitted_server_events: u64,
    harness_error: Option<String>,
}

fn run_case(seed: u64) -> Case {
    let mut rng = Rng::new(seed);
    let dedicated = rng.below(4) == 0;
    let auth = [AuthMethod::ProtocolCheck, AuthMethod::ProtocolCheck, AuthMethod::None, AuthMethod::Custom][rng.below(4)];
    let steps = 30 + rng.below(90);
    let mut case = Case { cfg: format!("dedicated={dedicated} auth={auth:?}"), log: vec![], errs: vec![], transitions: 0, events: 0, checks: 0, failed_attempt_events: 0, client_emitted_server_events: 0, harness_error: None };
    let mut in_update = false;
    let res = catch_unwind(AssertUnwindSafe(|| {
        let mut app = mk(dedicated, auth);
        let targets: Vec<Entity> = (0..3).map(|_| app.world_mut().spawn_empty().id()).collect();
        let mut client_st = St::Disconnected;
        let mut just_connected = false;
        let mut running = false;
        let mut seq = 0u32;
        let mut pending: Vec<(&'static str, u32, Option<Entity>)> = vec![];
        let mut pending_s: Vec<(&'static str, u32, bool, Option<Entity>, bool)> = vec![];
        let mut expect: BTreeMap<u32, Exp> = BTreeMap::new();
        let mut force_frame = false;
        let mut prev_connecting: Vec<u32> = vec![];
        let mut inside_update: Vec<u32> = vec![];
        let base = if auth == AuthMethod::ProtocolCheck { 2 } else { 1 };
        for step in 0..steps + 4 {
            let settle = step >= steps;
            let op = if force_frame || settle { 9 } else { rng.below(10) };
            force_frame = false;
            match op {
                0 if !dedicated => {
                    let next = match (client_st, rng.below(3)) {
                        // backends may report Connected directly (the test helper and the example backend do)
                        (St::Disconnected, 0) => St::Connected,
                        (St::Disconnected, _) => St::Connecting,
                        (St::Connecting, 0) => St::Disconnected,
                        (St::Connecting, _) => St::Connected,
                        (St::Connected, _) => St::Disconnected,
                    };
                    // a connected/connecting client is never also a running server (unsupported)
                    if next != St::Disconnected && running {
                        continue;
                    }
                    // events written before the connection is up are discarded by design
                    // (ClientSet::ResetEvents); a game emits after its first connected frame
                    if next != St::Disconnected && !pending.is_empty() {
                        continue;
                    }
                    // likewise server-direction events are emitted by an app that stays server/singleplayer
                    // until they are processed
                    if next != St::Disconnected && !pending_s.is_empty() && rng.below(4) != 0 {
                        continue;
                    }
                    client_st = next;
                    just_connected = next == St::Connected;
                    app.world_mut().resource_mut::<RepliconClient>().set_status(match next {
                        St::Disconnected => RepliconClientStatus::Disconnected,
                        St::Connecting => RepliconClientStatus::Connecting,
                        St::Connected => RepliconClientStatus::Connected,
                    });
                    case.transitions += 1;
                    case.log.push(format!("client -> {next:?}"));
                    force_frame = next != St::Disconnected || rng.below(2) == 0;
                }
                1 => {
                    if client_st != St::Disconnected {
                        continue;
                    }
                    running = !running;
                    app.world_mut().resource_mut::<RepliconServer>().set_running(running);
                    case.transitions += 1;
                    case.log.push(format!("server running={running}"));
                    force_frame = rng.below(2) == 0;
                }
                2 | 3 if !dedicated => {
                    if just_connected {
                        continue;
                    }
                    seq += 1;
                    case.events += 1;
                    let target = if rng.below(2) == 0 { Some(targets[rng.below(3)]) } else { None };
                    // half of the emissions happen inside the next frame's Update (game logic), half between frames
                    let inside = rng.below(2) == 0;
                    if rng.below(2) == 0 {
                        if inside {
                            app.world_mut().resource_mut::<Outbox>().cev.push(seq);
                        } else {
                            app.world_mut().send_event(CEv(seq));
                        }
                        pending.push(("CEv", seq, None));
                    } else {
                        if inside {
                            app.world_mut().resource_mut::<Outbox>().ctrig.push((seq, target));
                        } else {
                            match target {
                                Some(t) => app.world_mut().client_trigger_targets(CTrig(seq), t),
                                None => app.world_mut().client_trigger(CTrig(seq)),
                            }
                        }
                        pending.push(("CTrig", seq, target));
                    }
                    if inside {
                        inside_update.push(seq);
                    }
                    case.log.push(format!("emit client-direction {:?}{}", pending.last().unwrap(), if inside { " (inside Update of the next frame)" } else { "" }));
                }
                4 | 5 => {
                    // server-direction events are emitted while acting as server or singleplayer - and now
                    // and then by game code that does not look at the configuration while the app is a client
                    let as_client = client_st != St::Disconnected;
                    if as_client && (dedicated || rng.below(3) != 0) {
                        continue;
                    }
                    seq += 1;
                    case.events += 1;
                    let (mode, local) = match rng.below(5) {
                        0 => (SendMode::Broadcast, true),
                        1 => (SendMode::BroadcastExcept(SERVER), false),
                        2 => (SendMode::Direct(SERVER), true),
                        3 => (SendMode::Direct(Entity::from_raw(9999)), false),
                        _ => (SendMode::BroadcastExcept(Entity::from_raw(9999)), true),
                    };
                    let target = if rng.below(2) == 0 { Some(targets[rng.below(3)]) } else { None };
                    let kind = match rng.below(4) {
                        0 => {
                            app.world_mut().send_event(ToClients { mode, event: SEv(seq) });
                            "SEv"
                        }
                        1 => {
                            app.world_mut().send_event(ToClients { mode, event: SInd(seq) });
                            "SInd"
                        }
                        2 => {
                            match target {
                                Some(t) => app.world_mut().server_trigger_targets(ToClients { mode, event: SIndT(seq) }, t),
                                None => app.world_mut().server_trigger(ToClients { mode, event: SIndT(seq) }),
                            }
                            "SIndT"
                        }
                        _ => {
                            match target {
                                Some(t) => app.world_mut().server_trigger_targets(ToClients { mode, event: STrig(seq) }, t),
                                None => app.world_mut().server_trigger(ToClients { mode, event: STrig(seq) }),
                            }
                            "STrig"
                        }
                    };
                    pending_s.push((kind, seq, local, if kind == "STrig" || kind == "SIndT" { target } else { None }, as_client));
                    if as_client {
                        case.client_emitted_server_events += 1;
                    }
                    case.log.push(format!("emit server-direction {kind} seq={seq} mode={mode:?} target={target:?}"));
                }
                _ => {
                    // frame: expectations are keyed by the state at the processing frame
                    let st = client_st;
                    // a connection attempt that fails right away: what the game wrote during the last
                    // Connecting frame is still in the event buffers and the app is singleplayer again
                    if st == St::Disconnected {
                        for s in prev_connecting.drain(..) {
                            if let Some(e) = expect.get_mut(&s) {
                                e.must_local = true;
                                case.failed_attempt_events += 1;
                            }
                        }
                    }
                    prev_connecting.clear();
                    if st == St::Connecting {
                        // (only what was written inside that frame is still buffered in the next one)
                        prev_connecting.extend(pending.iter().map(|(_, s, _)| *s).filter(|s| inside_update.contains(s)));
                    }
                    for (kind, s, target) in pending.drain(..) {
                        let e = match st {
                            // a target that the server does not know cannot be mapped: such a trigger may be withheld
                            St::Connected => Exp { kind, local: 0, remote: 0, local_update: 0, must_local: false, must_remote: target.is_none(), no_local: false, client_emitted: false, was_singleplayer_since: false, target },
                            St::Disconnected => Exp { kind, local: 0, remote: 0, local_update: 0, must_local: true, must_remote: false, no_local: false, client_emitted: false, was_singleplayer_since: false, target },
                            St::Connecting => Exp { kind, local: 0, remote: 0, local_update: 0, must_local: false, must_remote: false, no_local: false, client_emitted: false, was_singleplayer_since: false, target },
                        };
                        expect.insert(s, e);
                    }
                    for (kind, s, local, target, as_client) in pending_s.drain(..) {
                        // an app without the client-side plugins is only promised "not twice"
                        let must_local = local && !dedicated && st == St::Disconnected && !as_client;
                        expect.insert(s, Exp { kind, local: 0, remote: 0, local_update: 0, must_local, must_remote: false, no_local: !local, client_emitted: as_client, was_singleplayer_since: false, target });
                    }
                    if st == St::Disconnected {
                        for e in expect.values_mut().filter(|e| e.client_emitted) {
                            e.was_singleplayer_since = true;
                        }
                    }
                    in_update = true;
                    app.update();
                    in_update = false;
                    just_connected = false;
                    case.log.push(format!("frame (client {st:?}, server running {running})"));
                    if !dedicated {
                        let sent: Vec<_> = app.world_mut().resource_mut::<RepliconClient>().drain_sent().collect();
                        if st != St::Connected && !sent.is_empty() {
                            case.errs.push(format!("client put {} message(s) on the network while {st:?}", sent.len()));
                        }
                        for (ch, m) in &sent {
                            let kind = if *ch == base {
                                "CEv"
                            } else if *ch == base + 1 {
                                "CTrig"
                            } else {
                                continue;
                            };
                            // decode the sequence number
                            let s = if kind == "CEv" {
                                wire::varint(m).map(|(v, _)| v as u32)
                            } else {
                                wire::varint(m).and_then(|(n, mut off)| {
                                    for _ in 0..n {
                                        off += wire::entity(&m[off..])?.1;
                                    }
                                    wire::varint(&m[off..]).map(|(v, _)| v as u32)
                                })
                            };
                            match s.and_then(|s| expect.get_mut(&s)) {
                                Some(e) => {
                                    e.remote += 1;
                                    case.checks += 1;
                                    if e.remote + e.local > 1 {
                                        case.errs.push(format!("{kind} seq {} handled {} times remotely and {} times locally", s.unwrap(), e.remote, e.local));
                                    }
                                }
                                None => case.errs.push(format!("client sent an unknown {kind} message {m:02x?}")),
                            }
                        }
                    }
                    let sent: Vec<_> = app.world_mut().resource_mut::<RepliconServer>().drain_sent().collect();
                    if !running && !sent.is_empty() {
                        case.errs.push(format!("server put {} message(s) on the network while stopped", sent.len()));
                    }
                    // the local server is not a network peer: what is meant for it is re-emitted locally only
                    let for_local = sent.iter().filter(|(e, _, _)| *e == SERVER).count();
                    if for_local != 0 {
                        case.errs.push(format!("{for_local} message(s) addressed to the local server (SERVER) were put on the network in addition to the local re-emission"));
                    }
                    let urecs = std::mem::take(&mut app.world_mut().resource_mut::<UpdateLog>().0);
                    for (kind, s) in urecs {
                        if let Some(e) = expect.get_mut(&s) {
                            e.local_update += 1;
                            if e.local_update > 1 {
                                case.errs.push(format!("{kind} seq {s} observed {} times by a reader in Update", e.local_update));
                            }
                        }
                    }
                    let recs = std::mem::take(&mut app.world_mut().resource_mut::<Log>().0);
                    for (kind, s, sender, target) in recs {
                        case.checks += 1;
                        let Some(e) = expect.get_mut(&s) else {
                            case.errs.push(format!("local observation of unknown {kind} seq {s}"));
                            continue;
                        };
                        e.local += 1;
                        if e.local + e.remote > 1 {
                            case.errs.push(format!("{kind} seq {s} handled {} times locally and {} times remotely", e.local, e.remote));
                        }
                        if e.client_emitted && st != St::Disconnected && !e.was_singleplayer_since {
                            case.errs.push(format!("{kind} seq {s} was emitted towards clients while the app was a client and is observed locally while it still is one ({st:?})"));
                        }
                        if e.no_local && !dedicated {
                            case.errs.push(format!("{kind} seq {s} observed locally although the local server is not among its recipients"));
                        }
                        if (kind == "CEv" || kind == "CTrig") && sender != Some(SERVER) {
                            case.errs.push(format!("{kind} seq {s} observed locally with sender {sender:?} instead of the local-server identity"));
                        }
                        if (kind == "CTrig" || kind == "STrig" || kind == "SIndT") && e.target.is_some() && e.target != target {
                            case.errs.push(format!("{kind} seq {s} observed with target {target:?}, emitted for {:?}", e.target));
                        }
                    }
                }
            }
            if !case.errs.is_empty() {
                return;
            }
        }
        for (s, e) in &expect {
            case.checks += 1;
            if e.must_local && e.local != 1 {
                case.errs.push(format!("{} seq {s}: the app acted as server/singleplayer at its processing frame, expected exactly one local observation, got {}", e.kind, e.local));
            }
            if e.must_local && (e.kind == "CEv" || e.kind == "SEv") && e.local == 1 && e.local_update != 1 {
                case.errs.push(format!("{} seq {s}: handled locally, but game logic reading events in Update observed it {} times instead of once", e.kind, e.local_update));
            }
            if e.must_remote && e.remote != 1 {
                case.errs.push(format!("{} seq {s}: the app was a connected client at its processing frame, expected exactly one send to the server, got {}", e.kind, e.remote));
            }
        }
    }));
    if res.is_err() {
        let p = take_panic().unwrap_or_default();
        let p: String = p.lines().take(2).collect::<Vec<_>>().join(" ").chars().take(300).collect();
        if in_update {
            case.errs.push(format!("panic inside App::update(): {p}"));
        } else {
            case.harness_error = Some(p);
        }
    }
    case
}

fn main() {
    let args = Args::from_env();
    quiet_panics();
    if let Some(seed) = args.get("--replay") {
        let c = run_case(seed.parse().unwrap());
        println!("config: {}", c.cfg);
        for l in &c.log {
            println!("  {l}");
        }
        for e in &c.errs {
            println!("VIOLATION [C13]: {e}");
        }
        if let Some(h) = &c.harness_error {
            println!("HARNESS ERROR: {h}");
        }
        return;
    }
    let from: u64 = args.num("--from", 0);
    let to: u64 = args.num("--to", 0);
    let out = args.get("--out").expect("--out").to_string();
    let replay_dir = args.get("--replay-dir").unwrap_or("/verif/replays").to_string();
    let mut res = ShardResult::default();
    let mut harness_errors = vec![];
    for seed in from..to {
        let c = run_case(seed);
        res.runs += 1;
        *res.configs.entry(c.cfg.clone()).or_default() += 1;
        res.obs.add("events_emitted", c.events as u64);
        res.obs.add("status_transitions", c.transitions as u64);
        res.obs.add("handling_observations_checked", c.checks);
        res.obs.add("events_of_a_connecting_frame_followed_by_a_failed_attempt", c.failed_attempt_events);
        res.obs.add("server_direction_events_emitted_by_a_client_app", c.client_emitted_server_events as u64);
        if let Some(h) = c.harness_error {
            harness_errors.push(json!({"seed": seed, "error": h}));
            continue;
        }
        if c.transitions >= 2 && c.events >= 3 {
            let h = fnv64(format!("{}{}", c.cfg, c.log.join(";")).as_bytes());
            if res.nontrivial.insert(h) && res.samples.len() < 2 {
                res.samples.push(json!({"seed": seed, "config": c.cfg, "trace_head": c.log.iter().take(40).collect::<Vec<_>>()}));
            }
        }
        if !c.errs.is_empty() {
            let path = format!("{replay_dir}/C13-s{seed}.json");
            write_json(&path, &json!({"engine": "c13", "seed": seed, "config": c.cfg, "trace": c.log, "violations": c.errs}));
            for e in c.errs.iter().take(3) {
                res.violations.push(json!({"props": ["C13"], "seed": seed, "msg": e, "replay": path}));
            }
        }
    }
    let mut j = res.to_json();
    j["harness_errors"] = json!(harness_errors);
    j["rule"] = json!("one case = one app (full plugin group or dedicated server without client plugins; ProtocolCheck / None / Custom auth) driven for 30..120 steps through random status transitions (client Disconnected/Connecting/Connected, server started/stopped) interleaved with emissions of client- and server-direction events and triggers (client-direction ones half between frames, half from a system inside Update; what is written inside a Connecting frame must be handled locally when the attempt fails in the next frame) (with and without targets, all send modes incl. SERVER) at arbitrary frames; per event the number of remote sends (decoded from RepliconClient::drain_sent) plus local observations must be exactly one on the path selected by the state at its processing frame; non-trivial = >=2 transitions and >=3 events; distinct = distinct trace");
    write_json(&out, &j);
}
