//! C12 (model part): public API of ConfirmHistory / ServerMutateTicks / RepliconTick against a
//! plain set model, over boundary and random confirmation sequences, across the u32 wrap.
use bevy_replicon::{
    client::{confirm_history::ConfirmHistory, server_mutate_ticks::ServerMutateTicks},
    prelude::*,
};
use replicon_verif::util::*;
use serde_json::json;
use std::{
    collections::{BTreeMap, BTreeSet},
    panic::{AssertUnwindSafe, catch_unwind},
};

const W: i64 = 64;

fn tick(base: u32, off: i64) -> RepliconTick {
    RepliconTick::new(base.wrapping_add(off as u32))
}

fn pick_delta(r: &mut Rng) -> i64 {
    match r.below(10) {
        0 => 0,
        1 => 1,
        2 => 63,
        3 => 64,
        4 => 65,
        5 => 127 + r.below(3) as i64,
        6 => r.below(131) as i64,
        7 => 2 + r.below(4) as i64,
        8 => 62 + r.below(5) as i64,
        _ => 1 + r.below(8) as i64,
    }
}

fn pick_base(r: &mut Rng) -> u32 {
    match r.below(6) {
        0 => 0,
        1 => u32::MAX - 100,
        2 => u32::MAX - r.below(70) as u32,
        3 => (1u32 << 31) - 40 + r.below(80) as u32,
        4 => 1,
        _ => r.next() as u32,
    }
}

struct Case {
    ops: Vec<String>,
    errs: Vec<String>,
    checks: u64,
    gap64: bool,
    wrapped: bool,
    backward: bool,
    full_window_query: bool,
}

fn call<T: std::fmt::Debug + PartialEq>(case: &mut Case, what: String, expect: T, f: impl FnOnce() -> T) {
    case.checks += 1;
    match catch_unwind(AssertUnwindSafe(f)) {
        Ok(got) if got == expect => {}
        Ok(got) => case.errs.push(format!("{what}: got {got:?}, a plain set of confirmed ticks says {expect:?}")),
        Err(_) => {
            let p = take_panic().unwrap_or_default();
            case.errs.push(format!("{what}: panicked ({p}), expected {expect:?}"))
        }
    }
}

/// ConfirmHistory against a BTreeSet of confirmed offsets.
fn history_case(seed: u64) -> Case {
    let mut r = Rng::new(seed);
    let base = pick_base(&mut r);
    let mut case = Case { ops: vec![format!("ConfirmHistory::new(base={base})")], errs: vec![], checks: 0, gap64: false, wrapped: false, backward: false, full_window_query: false };
    let mut h = ConfirmHistory::new(RepliconTick::new(base));
    let mut set: BTreeSet<i64> = BTreeSet::new();
    set.insert(0);
    let mut last: i64 = 0;
    let steps = 1 + r.below(14);
    for _ in 0..steps {
        let d = pick_delta(&mut r);
        let off = if r.below(3) == 0 { (last - d).max(last - 200) } else { last + d };
        case.ops.push(format!("confirm(base{off:+})"));
        let t = tick(base, off);
        let res = catch_unwind(AssertUnwindSafe(|| h.confirm(t)));
        if res.is_err() {
            let p = take_panic().unwrap_or_default();
            case.errs.push(format!("confirm(base{off:+}) panicked: {p}"));
            return case;
        }
        if off > last {
            if off - last >= W {
                case.gap64 = true;
            }
            last = off;
            set.insert(off);
        } else {
            case.backward = true;
            if last - off < W {
                set.insert(off);
            }
        }
        if (base as u64 + last.max(0) as u64) > u32::MAX as u64 {
            case.wrapped = true;
        }
        let lt = h.last_tick();
        if lt != tick(base, last) {
            case.errs.push(format!("last_tick() = {lt:?}, expected base{last:+}"));
        }
        // every membership query in a +-70 neighbourhood
        for q in (last - 70)..=(last + 3) {
            let expect = if q > last { false } else if last - q >= W { true } else { set.contains(&q) };
            let hh = &h;
            call(&mut case, format!("after {:?}: contains(base{q:+}) with last=base{last:+}", ()), expect, || hh.contains(tick(base, q)));
        }
        // range queries: boundary classes + random
        let mut ranges: Vec<(i64, i64)> = vec![
            (last - 63, last),
            (last - 64, last),
            (last - 62, last),
            (last - 63, last + 5),
            (last, last),
            (last - 1, last - 1),
            (last + 1, last + 3),
            (last - 70, last - 66),
        ];
        for _ in 0..10 {
            let a = last + 3 - r.below(80) as i64;
            let b = a + r.below(72) as i64;
            ranges.push((a, b));
        }
        for (a, b) in ranges {
            let expect = if a > last {
                false
            } else if last - a >= W {
                true
            } else {
                (a..=b.min(last)).any(|t| set.contains(&t))
            };
            if b.min(last) - a + 1 >= W && last - a < W {
                case.full_window_query = true;
            }
            let hh = &h;
            call(&mut case, format!("contains_any(base{a:+}, base{b:+}) with last=base{last:+}"), expect, || hh.contains_any(tick(base, a), tick(base, b)));
        }
        if !case.errs.is_empty() {
            return case;
        }
    }
    case
}

/// ServerMutateTicks against a map tick -> (announced count, received).
fn mutate_ticks_case(seed: u64) -> Case {
    let mut r = Rng::new(seed);
    let mut case = Case { ops: vec![], errs: vec![], checks: 0, gap64: false, wrapped: false, backward: false, full_window_query: false };
    let mut t = ServerMutateTicks::default();
    // walk the tracker to a base (its initial last tick is 0); jumps below 2^31 are "newer"
    let base: u32 = match r.below(4) {
        0 => 100 + r.below(100) as u32,
        1 => {
            let _ = t.confirm(RepliconTick::new((1u32 << 31) - 10), 1);
            u32::MAX - 10 - r.below(80) as u32
        }
        2 => (1u32 << 31) - 100 + r.below(60) as u32,
        _ => 65 + (r.next() as u32 >> 2),
    };
    case.ops.push(format!("ServerMutateTicks::default(); base={base}"));
    let mut model: BTreeMap<i64, (usize, usize)> = BTreeMap::new();
    // first confirmation establishes the base (gap >= 64 from anything before => window cleared)
    let mut last: i64 = 0;
    let mut first = true;
    let steps = 1 + r.below(16);
    for _ in 0..steps {
        let d = pick_delta(&mut r);
        let off = if first { 0 } else if r.below(3) == 0 { (last - d).max(last - 150) } else { last + d };
        let in_window = first || off > last || last - off < W;
        let cnt = model.get(&off).map(|m| m.0).unwrap_or(1 + r.below(3));
        if in_window && model.get(&off).is_some_and(|m| m.1 >= m.0) {
            // the transport never duplicates: a complete tick receives nothing more
            continue;
        }
        case.ops.push(format!("confirm(base{off:+}, count={cnt})"));
        let expect = if first || off > last {
            if !first && off - last >= W {
                case.gap64 = true;
                model.clear();
            } else {
                let min_keep = off - (W - 1);
                model.retain(|o, _| *o >= min_keep);
            }
            last = off;
            first = false;
            let e = model.entry(off).or_insert((cnt, 0));
            e.1 += 1;
            e.1 == e.0
        } else if last - off < W {
            case.backward = true;
            let e = model.entry(off).or_insert((cnt, 0));
            e.1 += 1;
            e.1 == e.0
        } else {
            case.backward = true;
            false
        };
        if (base as u64 + last.max(0) as u64) > u32::MAX as u64 {
            case.wrapped = true;
        }
        let tt = &mut t;
        call(&mut case, format!("confirm(base{off:+}, {cnt}) with last=base{last:+}"), expect, || tt.confirm(tick(base, off), cnt));
        if !case.errs.is_empty() {
            return case;
        }
        let complete = |q: i64, model: &BTreeMap<i64, (usize, usize)>| model.get(&q).is_some_and(|m| m.0 == m.1);
        for q in (last - 70)..=(last + 3) {
            let expect = if q > last { false } else if last - q >= W { true } else { complete(q, &model) };
            let tt = &t;
            call(&mut case, format!("contains(base{q:+}) with last=base{last:+}"), expect, || tt.contains(tick(base, q)));
        }
        let mut ranges: Vec<(i64, i64)> = vec![(last - 63, last), (last - 64, last), (last, last), (last + 1, last + 2), (last - 63, last + 4)];
        for _ in 0..8 {
            let a = last + 3 - r.below(80) as i64;
            ranges.push((a, a + r.below(72) as i64));
        }
        for (a, b) in ranges {
            let expect = if a > last {
                false
            } else if last - a >= W {
                true
            } else {
                (a..=b.min(last)).any(|q| complete(q, &model))
            };
            if b.min(last) - a + 1 >= W && last - a < W {
                case.full_window_query = true;
            }
            let tt = &t;
            call(&mut case, format!("contains_any(base{a:+}, base{b:+}) with last=base{last:+}"), expect, || tt.contains_any(tick(base, a), tick(base, b)));
        }
        if !case.errs.is_empty() {
            return case;
        }
    }
    case
}

/// RepliconTick ordering against the wrapping distance.
fn tick_order_case(seed: u64) -> Case {
    let mut r = Rng::new(seed);
    let mut case = Case { ops: vec![], errs: vec![], checks: 0, gap64: false, wrapped: false, backward: false, full_window_query: false };
    let half = 1u32 << 31;
    for _ in 0..64 {
        let a = pick_base(&mut r);
        let d: u32 = match r.below(8) {
            0 => 0,
            1 => 1,
            2 => half - 1,
            3 => half - 2,
            4 => r.below(200) as u32,
            5 => half - 1 - r.below(100) as u32,
            _ => (r.next() as u32) % half,
        };
        let b = a.wrapping_add(d);
        if b < a {
            case.wrapped = true;
        }
        let (ta, tb) = (RepliconTick::new(a), RepliconTick::new(b));
        let expect = if d == 0 { std::cmp::Ordering::Equal } else { std::cmp::Ordering::Less };
        case.ops.push(format!("cmp({a}, {a}+{d})"));
        call(&mut case, format!("RepliconTick({a}).cmp(RepliconTick({b})) (distance {d})"), expect, || ta.cmp(&tb));
        call(&mut case, format!("RepliconTick({b}).cmp(RepliconTick({a})) (distance -{d})"), expect.reverse(), || tb.cmp(&ta));
        call(&mut case, format!("RepliconTick({b}) - RepliconTick({a})"), d, || tb - ta);
        call(&mut case, format!("RepliconTick({a}) + {d}"), tb, || ta + d);
    }
    case
}

fn run_case(seed: u64) -> (&'static str, Case) {
    match seed % 5 {
        0 | 1 => ("ConfirmHistory", history_case(seed)),
        2 | 3 => ("ServerMutateTicks", mutate_ticks_case(seed)),
        _ => ("RepliconTick", tick_order_case(seed)),
    }
}

fn main() {
    let args = Args::from_env();
    quiet_panics();
    if let Some(seed) = args.get("--replay") {
        let (what, c) = run_case(seed.parse().unwrap());
        println!("{what} case:");
        for o in &c.ops {
            println!("  {o}");
        }
        for e in &c.errs {
            println!("VIOLATION [C12]: {e}");
        }
        println!("{} oracle evaluations", c.checks);
        return;
    }
    let from: u64 = args.num("--from", 0);
    let to: u64 = args.num("--to", 0);
    let out = args.get("--out").expect("--out").to_string();
    let replay_dir = args.get("--replay-dir").unwrap_or("/verif/replays").to_string();
    let mut res = ShardResult::default();
    for seed in from..to {
        let (what, c) = run_case(seed);
        res.runs += 1;
        *res.configs.entry(what.to_string()).or_default() += 1;
        res.obs.add("model_queries_compared", c.checks);
        if c.gap64 {
            res.obs.inc("sequences_with_gap_ge_64");
        }
        if c.wrapped {
            res.obs.inc("sequences_crossing_u32_wrap");
        }
        if c.backward {
            res.obs.inc("sequences_with_out_of_order_confirmation");
        }
        if c.full_window_query {
            res.obs.inc("sequences_with_full_window_range_query");
        }
        if c.gap64 || c.wrapped || c.backward {
            let h = fnv64(c.ops.join(";").as_bytes());
            if res.nontrivial.insert(h) && res.samples.len() < 2 {
                res.samples.push(json!({"seed": seed, "structure": what, "ops": c.ops}));
            }
        }
        if !c.errs.is_empty() {
            let path = format!("{replay_dir}/C12-m{seed}.json");
            write_json(&path, &json!({"engine": "c12m", "seed": seed, "structure": what, "ops": c.ops, "violations": c.errs}));
            for e in c.errs.iter().take(3) {
                res.violations.push(json!({"props": ["C12"], "seed": seed, "msg": format!("{what}: {e}"), "replay": path}));
            }
        }
    }
    let mut j = res.to_json();
    j["harness_errors"] = json!([]);
    j["rule"] = json!("model part: one case = one seed-determined confirmation sequence (1..16 steps, tick distances from {0,1,63,64,65,127..129,random<=130} forwards/backwards, bases at 0, around 2^31 and the u32 wrap) on ConfirmHistory or ServerMutateTicks with every contains() in a +-70 neighbourhood and ~18 contains_any() ranges compared with a plain set after each step, or 64 RepliconTick pairs; non-trivial = the sequence contains a gap >= 64, an out-of-order confirmation or crosses the wrap; distinct = distinct op sequence");
    write_json(&out, &j);
}
