//! C15: entity wire codec - round trip, exact consumption, totality on arbitrary bytes.
use bevy::prelude::Entity;
use bevy_replicon::shared::entity_serde::{deserialize_entity, serialize_entity};
use bytes::Bytes;
use replicon_verif::{util::*, wire};
use serde_json::json;
use std::panic::{AssertUnwindSafe, catch_unwind};

const IDX: [u32; 16] = [
    0, 1, 63, 64, 127, 128, (1 << 14) - 1, 1 << 14, (1 << 21) - 1, 1 << 21, (1 << 28) - 1, 1 << 28, (1u32 << 31) - 1, 1u32 << 31, u32::MAX - 1, u32::MAX,
];
const GENS: [u32; 12] = [1, 2, 3, 127, 128, 129, (1 << 14) - 1, 1 << 14, (1 << 21), (1 << 28), 0x7FFF_FFFE, 0x7FFF_FFFF];

struct St {
    errs: Vec<String>,
    n_rt: u64,
    n_bytes: u64,
    ok_decodes: u64,
    err_decodes: u64,
}

fn ent(index: u32, generation: u32) -> Entity {
    Entity::from_bits(((generation as u64) << 32) | index as u64)
}

fn roundtrip(st: &mut St, e: Entity, trailing: &[u8]) {
    st.n_rt += 1;
    let r = catch_unwind(AssertUnwindSafe(|| {
        let mut buf = Vec::new();
        serialize_entity(&mut buf, e).map_err(|e| format!("serialize failed: {e}"))?;
        let enc_len = buf.len();
        // independent re-implementation of the documented format must agree
        let mut mine = Vec::new();
        wire::write_entity(e, &mut mine);
        if mine != buf {
            return Err(format!("encoding {buf:02x?} differs from the documented format {mine:02x?}"));
        }
        buf.extend_from_slice(trailing);
        let mut b = Bytes::from(buf);
        let d = deserialize_entity(&mut b).map_err(|e| format!("deserialize failed: {e}"))?;
        if d != e {
            return Err(format!("decoded {d:?} ({:#x})", d.to_bits()));
        }
        if b.len() != trailing.len() || &b[..] != trailing {
            return Err(format!("decoder consumed {} bytes, encoder produced {enc_len}", enc_len + trailing.len() - b.len()));
        }
        Ok(())
    }));
    match r {
        Ok(Ok(())) => {}
        Ok(Err(m)) => st.errs.push(format!("entity index={} generation={} trailing={trailing:02x?}: {m}", e.index(), e.generation())),
        Err(_) => st.errs.push(format!("entity index={} generation={}: panic {}", e.index(), e.generation(), take_panic().unwrap_or_default())),
    }
}

fn decode(st: &mut St, bytes: &[u8]) {
    st.n_bytes += 1;
    let r = catch_unwind(AssertUnwindSafe(|| {
        let mut b = Bytes::copy_from_slice(bytes);
        let r = deserialize_entity(&mut b);
        (r.map_err(|e| e.to_string()), bytes.len() - b.len())
    }));
    match r {
        Err(_) => st.errs.push(format!("decoding {bytes:02x?} panicked: {}", take_panic().unwrap_or_default())),
        Ok((Ok(e), used)) => {
            st.ok_decodes += 1;
            // a decoded identifier must be valid and must agree with the documented format
            if Entity::try_from_bits(e.to_bits()).is_err() {
                st.errs.push(format!("decoding {bytes:02x?} produced invalid identifier bits {:#x}", e.to_bits()));
            }
            match wire::entity(bytes) {
                Some((m, n)) if m == e && n == used => {}
                other => st.errs.push(format!("decoding {bytes:02x?}: library says {e:?} using {used} bytes, documented format says {other:?}")),
            }
        }
        Ok((Err(_), _)) => st.err_decodes += 1,
    }
}

fn run_seed(seed: u64, thorough: bool, block: usize, st: &mut St) -> (&'static str, String) {
    let mut r = Rng::new(seed);
    match seed % 4 {
        0 => {
            // boundary classes, exhaustively, with 0..3 trailing bytes
            for &i in &IDX {
                for &g in &GENS {
                    let tl = r.below(4);
                    let trailing = r.bytes(tl);
                    roundtrip(st, ent(i, g), &trailing);
                    roundtrip(st, ent(i, g), &[]);
                    roundtrip(st, ent(i, g), &[0xff, 0xff, 0xff]);
                }
            }
            ("roundtrip-boundary", format!("{} index classes x {} generation classes", IDX.len(), GENS.len()))
        }
        1 => {
            let mut first = String::new();
            for k in 0..block {
                let i = match r.below(4) {
                    0 => r.next() as u32,
                    1 => (r.next() as u32) >> r.below(32),
                    2 => IDX[r.below(IDX.len())].wrapping_add(r.below(5) as u32).wrapping_sub(2),
                    _ => r.below(100000) as u32,
                };
                let g = match r.below(4) {
                    0 => 1 + (r.next() as u32 % 0x7FFF_FFFF),
                    1 => 1 + ((r.next() as u32 % 0x7FFF_FFFF) >> r.below(31)),
                    2 => (GENS[r.below(GENS.len())].wrapping_add(r.below(5) as u32).wrapping_sub(2)).clamp(1, 0x7FFF_FFFF),
                    _ => 1 + r.below(1000) as u32,
                };
                let tl = r.below(6);
                let trailing = r.bytes(tl);
                if k == 0 {
                    first = format!("index={i} generation={g} trailing={trailing:02x?}");
                }
                roundtrip(st, ent(i, g), &trailing);
            }
            ("roundtrip-random", format!("{block} random identifiers, first: {first}"))
        }
        2 => {
            // exhaustive byte strings by first byte
            let b0 = ((seed / 4) % 256) as u8;
            if b0 == 0 {
                decode(st, &[]);
            }
            decode(st, &[b0]);
            for x in 0..=255u8 {
                decode(st, &[b0, x]);
            }
            if thorough {
                for x in 0..=255u8 {
                    for y in 0..=255u8 {
                        decode(st, &[b0, x, y]);
                    }
                }
            }
            ("bytes-exhaustive", format!("all byte strings of length 1..{} starting with {b0:#04x}", if thorough { 3 } else { 2 }))
        }
        _ => {
            let mut first = String::new();
            for k in 0..block {
                let bytes: Vec<u8> = if r.below(2) == 0 {
                    // mutate a valid encoding
                    let mut buf = Vec::new();
                    wire::write_entity(ent(r.next() as u32 >> r.below(32), 1 + (r.next() as u32 % 0x7FFF_FFFF >> r.below(31))), &mut buf);
                    match r.below(4) {
                        0 => {
                            let n = r.below(buf.len() + 1);
                            buf.truncate(n)
                        }
                        1 => {
                            let i = r.below(buf.len());
                            buf[i] ^= 1 << r.below(8)
                        }
                        2 => {
                            let i = r.below(buf.len());
                            buf[i] |= 0x80
                        }
                        _ => buf.extend_from_slice(&[0xff, 0xff, 0xff, 0xff, 0xff, 0xff]),
                    }
                    buf
                } else {
                    let len = r.below(13);
                    (0..len)
                        .map(|_| {
                            let x = r.next();
                            match x % 4 {
                                0 => 0xff,
                                1 => (x >> 8) as u8 & 0x7f,
                                2 => 0x80 | (x >> 8) as u8,
                                _ => (x >> 8) as u8,
                            }
                        })
                        .collect()
                };
                if k == 0 {
                    first = format!("{bytes:02x?}");
                }
                decode(st, &bytes);
            }
            ("bytes-random", format!("{block} random/mutated byte strings <= 12 bytes, first: {first}"))
        }
    }
}

fn main() {
    let args = Args::from_env();
    quiet_panics();
    let thorough = args.get("--tier") == Some("thorough");
    if let Some(seed) = args.get("--replay") {
        let mut st = St { errs: vec![], n_rt: 0, n_bytes: 0, ok_decodes: 0, err_decodes: 0 };
        let (k, d) = run_seed(seed.parse().unwrap(), true, args.num("--block", 4096), &mut st);
        println!("{k}: {d}");
        for e in &st.errs {
            println!("VIOLATION [C15]: {e}");
        }
        println!("{} round trips, {} byte strings", st.n_rt, st.n_bytes);
        return;
    }
    let from: u64 = args.num("--from", 0);
    let to: u64 = args.num("--to", 0);
    let out = args.get("--out").expect("--out").to_string();
    let replay_dir = args.get("--replay-dir").unwrap_or("/verif/replays").to_string();
    let block: usize = args.num("--block", 4096);
    let mut res = ShardResult::default();
    for seed in from..to {
        let mut st = St { errs: vec![], n_rt: 0, n_bytes: 0, ok_decodes: 0, err_decodes: 0 };
        let (kind, desc) = run_seed(seed, thorough, block, &mut st);
        res.runs += st.n_rt + st.n_bytes;
        *res.configs.entry(kind.to_string()).or_default() += 1;
        res.obs.add("round_trips", st.n_rt);
        res.obs.add("byte_strings_decoded", st.n_bytes);
        res.obs.add("decoded_to_identifier", st.ok_decodes);
        res.obs.add("decoded_to_error", st.err_decodes);
        if kind == "bytes-exhaustive" {
            res.obs.inc("exhaustive_first_byte_blocks");
        }
        // every block is a distinct non-trivial batch of inputs
        let h = fnv64(format!("{kind}{desc}").as_bytes());
        if res.nontrivial.insert(h) && res.samples.len() < 4 {
            res.samples.push(json!({"seed": seed, "kind": kind, "inputs": desc}));
        }
        if !st.errs.is_empty() {
            let path = format!("{replay_dir}/C15-s{seed}.json");
            write_json(&path, &json!({"engine": "c15", "seed": seed, "kind": kind, "violations": st.errs.iter().take(50).collect::<Vec<_>>()}));
            for e in st.errs.iter().take(3) {
                res.violations.push(json!({"props": ["C15"], "seed": seed, "msg": e, "replay": path}));
            }
        }
    }
    let mut j = res.to_json();
    j["harness_errors"] = json!([]);
    j["rule"] = json!("evaluations = individual inputs (identifiers round-tripped + byte strings decoded); cases come in blocks per seed: boundary block (16 index classes x 12 generation classes x 3 trailing-byte variants), random block (4096 identifiers with 0..5 trailing bytes), exhaustive block (every byte string of length 1..2 [quick] / 1..3 [thorough] with one fixed first byte; 256 consecutive blocks = the complete space), random/mutated block (4096 strings <= 12 bytes); distinct_nontrivial counts distinct blocks (every block contains boundary or hostile inputs)");
    write_json(&out, &j);
}
