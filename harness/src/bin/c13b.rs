//! C13 over the example transport: a client's events around the moment its connection goes away are
//! handled through exactly one path (remote server XOR local re-emission), never none, never both.
//!
//! The hand-driven engine (c13.rs) plays the transport itself and flips `RepliconClient`'s status
//! where the backend contract says a backend must. Here the repository's own backend decides when the
//! status changes, over a real loopback socket.
use bevy::prelude::*;
use bevy_replicon::prelude::*;
use bevy_replicon_example_backend::{ExampleClient, ExampleServer, RepliconExampleBackendPlugins};
use replicon_verif::util::*;
use serde::{Deserialize, Serialize};
use serde_json::json;
use std::{
    collections::BTreeMap,
    panic::{AssertUnwindSafe, catch_unwind},
    time::Duration,
};

#[derive(Event, Serialize, Deserialize, Debug, Clone)]
struct CE(u32);
#[derive(Event, Serialize, Deserialize, Debug, Clone)]
struct CT(u32);

/// (kind, seq, sender is the local server)
#[derive(Resource, Default)]
struct Got(Vec<(u8, u32, bool)>);

/// Game logic that closes the connection from inside the frame (after this frame's events were written).
#[derive(Resource, Default)]
struct CloseNow(bool);

fn mk() -> App {
    let mut app = App::new();
    app.add_plugins((
        MinimalPlugins,
        RepliconPlugins
            .set(RepliconSharedPlugin { auth_method: AuthMethod::None })
            .set(ServerPlugin { tick_policy: TickPolicy::EveryFrame, ..Default::default() }),
        RepliconExampleBackendPlugins,
    ))
    .init_resource::<Got>()
    .init_resource::<CloseNow>()
    .add_client_event::<CE>(Channel::Ordered)
    .add_client_trigger::<CT>(Channel::Ordered)
    .add_systems(Update, |mut commands: Commands, mut c: ResMut<CloseNow>| {
        if c.0 {
            c.0 = false;
            commands.remove_resource::<ExampleClient>();
        }
    })
    .add_systems(Last, |mut r: EventReader<FromClient<CE>>, mut g: ResMut<Got>| {
        for e in r.read() {
            g.0.push((1, e.event.0, e.client == SERVER));
        }
    })
    .add_observer(|t: Trigger<FromClient<CT>>, mut g: ResMut<Got>| {
        g.0.push((2, t.event().event.0, t.event().client == SERVER));
    });
    app.finish();
    app
}

struct Case {
    desc: Vec<String>,
    errs: Vec<String>,
    inconclusive: Option<String>,
    events: u64,
    in_closing_frame: u64,
    sessions: u64,
}

#[derive(Clone, Copy, PartialEq, Debug)]
enum Expect {
    /// emitted in a frame after which the client was still connected and the server ran right after
    Remote,
    /// emitted in a frame after which the client reported `Disconnected`
    Local,
    /// emitted in a frame after which the client still believed in a connection the server had
    /// already closed: put on a dead socket, at most once anywhere
    AtMostOnce,
}

fn connect(server: &mut App, client: &mut App, port: u16) -> Result<(), String> {
    match ExampleClient::new(port) {
        Ok(c) => client.insert_resource(c),
        Err(e) => return Err(format!("cannot connect over loopback: {e}")),
    };
    for _ in 0..300 {
        client.update();
        server.update();
        let mut q = server.world_mut().query::<&ConnectedClient>();
        if q.iter(server.world()).count() == 1 && client.world().resource::<RepliconClient>().is_connected() {
            // one more quiet frame: events written in the frame in which the status changes are
            // discarded by design (ClientSet::ResetEvents)
            client.update();
            server.update();
            return Ok(());
        }
        std::thread::sleep(Duration::from_millis(1));
    }
    Err("loopback connection not established after 300 frames".into())
}

fn run_case(seed: u64) -> Case {
    let mut rng = Rng::new(seed);
    let mut case = Case { desc: vec![], errs: vec![], inconclusive: None, events: 0, in_closing_frame: 0, sessions: 0 };
    let r = catch_unwind(AssertUnwindSafe(|| {
        let mut server = mk();
        let mut client = mk();
        // (a machine that is churning through loopback sockets may be out of free ports for a moment)
        let mut es = ExampleServer::new(0);
        for _ in 0..200 {
            if es.is_ok() {
                break;
            }
            std::thread::sleep(Duration::from_millis(10));
            es = ExampleServer::new(0);
        }
        let es = match es {
            Ok(s) => s,
            Err(e) => {
                case.inconclusive = Some(format!("cannot open a loopback listener: {e}"));
                return;
            }
        };
        let port = es.local_addr().unwrap().port();
        server.insert_resource(es);
        server.update();
        let mut seq = 0u32;
        let mut expect: BTreeMap<(u8, u32), (Expect, String)> = BTreeMap::new();
        let mut remote: BTreeMap<(u8, u32), u32> = BTreeMap::new();
        let mut local: BTreeMap<(u8, u32), u32> = BTreeMap::new();
        let sessions = 1 + rng.below(3);
        let mut server_up = true;
        for session in 0..sessions {
            if !server_up {
                break;
            }
            if let Err(e) = connect(&mut server, &mut client, port) {
                case.inconclusive = Some(e);
                return;
            }
            case.sessions += 1;
            let before = 1 + rng.below(4);
            let after = 1 + rng.below(3);
            let how = rng.below(4);
            let mut server_closed = false;
            for f in 0..before + 1 + after {
                let closing = f == before;
                if closing {
                    match how {
                        0 => {
                            client.world_mut().remove_resource::<ExampleClient>();
                        }
                        1 => client.world_mut().resource_mut::<CloseNow>().0 = true,
                        2 => {
                            // the server goes away
                            server.world_mut().remove_resource::<ExampleServer>();
                            server.update();
                            server_up = false;
                            server_closed = true;
                            std::thread::sleep(Duration::from_millis(2));
                        }
                        _ => {
                            // the server drops this connection
                            let mut q = server.world_mut().query_filtered::<Entity, With<ConnectedClient>>();
                            let ents: Vec<Entity> = q.iter(server.world()).collect();
                            for e in ents {
                                server.world_mut().entity_mut(e).despawn();
                            }
                            server.update();
                            server_closed = true;
                            std::thread::sleep(Duration::from_millis(2));
                        }
                    }
                }
                let n = if closing { 1 + rng.below(3) } else { rng.below(3) };
                let mut emitted = vec![];
                for _ in 0..n {
                    seq += 1;
                    let kind = 1 + rng.below(2) as u8;
                    if kind == 1 {
                        client.world_mut().send_event(CE(seq));
                    } else {
                        client.world_mut().client_trigger(CT(seq));
                    }
                    emitted.push((kind, seq));
                }
                client.update();
                let st = client.world().resource::<RepliconClient>().status();
                let what = format!(
                    "session {session} frame {f}{}: {} emitted, client status after the frame {st:?}",
                    if closing { format!(" (connection closed: {})", ["resource removed before the frame", "resource removed by a system of the frame", "server stopped", "server dropped the connection"][how]) } else { String::new() },
                    emitted.len()
                );
                case.desc.push(what.clone());
                let e = match st {
                    RepliconClientStatus::Disconnected => Expect::Local,
                    _ if server_closed => Expect::AtMostOnce,
                    _ => Expect::Remote,
                };
                for k in emitted {
                    case.events += 1;
                    if closing {
                        case.in_closing_frame += 1;
                    }
                    expect.insert(k, (e, what.clone()));
                }
                if server_up {
                    server.update();
                }
                for (app, is_server_app) in [(&mut client, false), (&mut server, true)] {
                    let g = std::mem::take(&mut app.world_mut().resource_mut::<Got>().0);
                    for (k, s, from_local) in g {
                        match (is_server_app, from_local) {
                            (true, false) => *remote.entry((k, s)).or_default() += 1,
                            (false, true) => *local.entry((k, s)).or_default() += 1,
                            (true, true) => case.errs.push(format!("the server app observed seq {s} as if its own game logic had sent it")),
                            (false, false) => case.errs.push(format!("the client app observed seq {s} as coming from a remote client")),
                        }
                    }
                }
            }
            // make sure the client has noticed a server-side close before the next session
            for _ in 0..50 {
                if client.world().resource::<RepliconClient>().is_disconnected() {
                    break;
                }
                client.update();
                std::thread::sleep(Duration::from_millis(1));
            }
            if !client.world().resource::<RepliconClient>().is_disconnected() {
                case.inconclusive = Some("client did not notice the closed connection within 50 frames".into());
                return;
            }
        }
        // let late duplicates show up
        for _ in 0..3 {
            client.update();
            if server_up {
                server.update();
            }
            for (app, is_server_app) in [(&mut client, false), (&mut server, true)] {
                let g = std::mem::take(&mut app.world_mut().resource_mut::<Got>().0);
                for (k, s, from_local) in g {
                    if is_server_app && !from_local {
                        *remote.entry((k, s)).or_default() += 1;
                    } else if !is_server_app && from_local {
                        *local.entry((k, s)).or_default() += 1;
                    }
                }
            }
        }
        for (key, (e, what)) in &expect {
            let r = remote.get(key).copied().unwrap_or(0);
            let l = local.get(key).copied().unwrap_or(0);
            let name = if key.0 == 1 { "event" } else { "trigger" };
            let ok = match e {
                Expect::Remote => r == 1 && l == 0,
                Expect::Local => r == 0 && l == 1,
                Expect::AtMostOnce => r + l <= 1 && l == 0,
            };
            if !ok {
                case.errs.push(format!(
                    "{name} seq {} ({what}): observed {r} time(s) by the remote server and {l} time(s) locally, expected {}",
                    key.1,
                    match e {
                        Expect::Remote => "exactly once remotely",
                        Expect::Local => "exactly once locally (the frame ended disconnected, so it cannot have been sent)",
                        Expect::AtMostOnce => "at most once remotely and not locally",
                    }
                ));
            }
        }
    }));
    if r.is_err() {
        case.errs.push(format!("panic: {}", take_panic().unwrap_or_default().lines().next().unwrap_or("")));
    }
    case
}

fn main() {
    let args = Args::from_env();
    quiet_panics();
    if let Some(seed) = args.get("--replay") {
        let c = run_case(seed.parse().unwrap());
        for d in &c.desc {
            println!("  {d}");
        }
        for e in &c.errs {
            println!("VIOLATION [C13]: {e}");
        }
        if let Some(i) = &c.inconclusive {
            println!("INCONCLUSIVE: {i}");
        }
        return;
    }
    let from: u64 = args.num("--from", 0);
    let to: u64 = args.num("--to", 0);
    let out = args.get("--out").expect("--out").to_string();
    let replay_dir = args.get("--replay-dir").unwrap_or("/verif/replays").to_string();
    let mut res = ShardResult::default();
    let mut inconclusive = 0u64;
    let mut first_inconclusive = None;
    for seed in from..to {
        let c = run_case(seed);
        res.runs += 1;
        res.obs.add("backend_sessions", c.sessions);
        res.obs.add("backend_client_events", c.events);
        res.obs.add("backend_events_in_the_closing_frame", c.in_closing_frame);
        if let Some(i) = c.inconclusive {
            inconclusive += 1;
            first_inconclusive.get_or_insert(i);
            continue;
        }
        if c.in_closing_frame > 0 {
            let h = fnv64(c.desc.join(";").as_bytes());
            if res.nontrivial.insert(h) && res.samples.len() < 2 {
                res.samples.push(json!({"seed": seed, "frames": c.desc}));
            }
        }
        if !c.errs.is_empty() {
            let path = format!("{replay_dir}/C13-b{seed}.json");
            write_json(&path, &json!({"engine": "c13b", "seed": seed, "frames": c.desc, "violations": c.errs}));
            for e in c.errs.iter().take(3) {
                res.violations.push(json!({"props": ["C13"], "seed": seed, "msg": e, "replay": path}));
            }
        }
    }
    res.obs.add("backend_inconclusive_cases", inconclusive);
    let mut j = res.to_json();
    j["harness_errors"] = if inconclusive * 2 > res.runs.max(1) { json!([format!("{inconclusive} of {} cases inconclusive: {}", res.runs, first_inconclusive.unwrap_or_default())]) } else { json!([]) };
    j["rule"] = json!("one case = one server App + client App on the example backend over loopback TCP, 1..3 sessions; per session 1..4 connected frames, a closing frame (ExampleClient removed before the frame / by a system of the frame / server stopped / server dropped the connection) and 1..3 frames after it, 0..3 client events or triggers written per frame (1..3 in the closing frame); each is expected exactly once remotely (client still connected after its frame), exactly once locally (frame ended disconnected) or at most once (server already gone, client not yet aware); non-trivial = at least one event written in a closing frame");
    write_json(&out, &j);
}
