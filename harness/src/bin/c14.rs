//! C14: protocol hash vs. registration sequences, and the ProtocolCheck handshake.
use bevy::prelude::*;
use bevy_replicon::{prelude::*, shared::replication::track_mutate_messages::TrackAppExt};
use replicon_verif::util::*;
use serde::{Deserialize, Serialize};
use serde_json::json;
use std::{
    collections::BTreeMap,
    panic::{AssertUnwindSafe, catch_unwind},
    process::Command,
};

macro_rules! comp {
    ($($n:ident),*) => { $(
        #[derive(Component, Serialize, Deserialize, Clone, Copy, PartialEq, Debug, Default)]
        struct $n(u32);
    )* };
}
comp!(A, B, C, D);
macro_rules! ev {
    ($($n:ident),*) => { $(
        #[derive(Event, Serialize, Deserialize, Clone, Copy, PartialEq, Debug, Default)]
        struct $n(u32);
    )* };
}
ev!(E1, E2, E3, E4, E5, E6);

/// Registered first in every app (part of every sequence): a mapped client event that the client's
/// game logic sends on the very frame the connection comes up, referencing a local entity the
/// server cannot know. It must be withheld without disturbing the handshake.
#[derive(Event, Serialize, Deserialize, Clone, Copy, Debug, bevy::ecs::entity::MapEntities)]
struct Probe(#[entities] Entity);

/// Registration actions. Any two differ in kind, type, priority or independence target
/// (never only in a send rate, which the property does not list).
const ACTIONS: [&str; 31] = [
    "replicate::<A>",                       // 0
    "replicate::<B>",                       // 1
    "replicate_once::<C>",                  // 2
    "replicate_periodic::<D>(2)",           // 3
    "replicate_bundle::<(A,B)>",            // 4
    "replicate_bundle::<(B,A)>",            // 5
    "replicate_bundle::<(A,B,C)>",          // 6
    "replicate_with((A,B))",                // 7  tuple rule, default priority 2
    "replicate_with_priority(5,A)",         // 8  same type as 0, different priority
    "replicate_with_priority(7,(A,B))",     // 9  same type as 7, different priority
    "add_client_event::<E1>",               // 10
    "add_client_event::<E2>",               // 11
    "add_server_event::<E1>",               // 12 same type as 10, different kind
    "add_server_event::<E3>",               // 13
    "add_client_trigger::<E4>",             // 14
    "add_server_trigger::<E5>",             // 15
    "add_server_trigger::<E6>",             // 16
    "add_client_trigger::<E6>",             // 17 same type as 16, different kind
    "make_event_independent::<E3>",         // 18 needs 13
    "make_event_independent::<E1>",         // 19 needs 12
    "make_trigger_independent::<E5>",       // 20 needs 15
    "make_trigger_independent::<E6>",       // 21 needs 16
    "add_mapped_like_server_event::<E2>",   // 22 server event E2 (type shared with client event 11)
    "add_client_event::<E3>",               // 23 client event E3 (type shared with server event 13)
    "add_server_trigger::<E3>",             // 24 trigger for a type that is also a server event (13)
    "add_server_event::<E4>",               // 25 server event for a type used as client trigger
    "make_trigger_independent::<E3>",       // 26 needs 24 (same type as 18, different kind)
    "add_server_event::<E5>",               // 27 server event for a type that is also a server trigger (15)
    "make_event_independent::<E5>",         // 28 needs 27 (same type as 20, different kind)
    "replicate_with_priority(usize::MAX,D)",   // 29
    "replicate_with_priority(usize::MAX-1,D)", // 30 same type as 29, priority differs above 2^32
];

fn prerequisite(a: usize) -> Option<usize> {
    match a {
        18 => Some(13),
        19 => Some(12),
        20 => Some(15),
        21 => Some(16),
        26 => Some(24),
        28 => Some(27),
        _ => None,
    }
}

/// Actions that cannot coexist in one app (same Bevy resource registered twice etc.).
fn conflicts(a: usize, b: usize) -> bool {
    let _ = (a, b);
    false
}

fn valid(seq: &[usize]) -> bool {
    for (i, a) in seq.iter().enumerate() {
        if seq[..i].contains(a) {
            return false;
        }
        if let Some(p) = prerequisite(*a) {
            if !seq[..i].contains(&p) {
                return false;
            }
        }
        if seq[..i].iter().any(|b| conflicts(*a, *b)) {
            return false;
        }
    }
    true
}

fn apply(app: &mut App, a: usize) {
    match a {
        0 => {
            app.replicate::<A>();
        }
        1 => {
            app.replicate::<B>();
        }
        2 => {
            app.replicate_once::<C>();
        }
        3 => {
            app.replicate_periodic::<D>(2);
        }
        4 => {
            app.replicate_bundle::<(A, B)>();
        }
        5 => {
            app.replicate_bundle::<(B, A)>();
        }
        6 => {
            app.replicate_bundle::<(A, B, C)>();
        }
        7 => {
            app.replicate_with((RuleFns::<A>::default(), RuleFns::<B>::default()));
        }
        8 => {
            app.replicate_with_priority(5, RuleFns::<A>::default());
        }
        9 => {
            app.replicate_with_priority(7, (RuleFns::<A>::default(), RuleFns::<B>::default()));
        }
        10 => {
            app.add_client_event::<E1>(Channel::Ordered);
        }
        11 => {
            app.add_client_event::<E2>(Channel::Ordered);
        }
        12 => {
            app.add_server_event::<E1>(Channel::Ordered);
        }
        13 => {
            app.add_server_event::<E3>(Channel::Ordered);
        }
        14 => {
            app.add_client_trigger::<E4>(Channel::Ordered);
        }
        15 => {
            app.add_server_trigger::<E5>(Channel::Ordered);
        }
        16 => {
            app.add_server_trigger::<E6>(Channel::Ordered);
        }
        17 => {
            app.add_client_trigger::<E6>(Channel::Ordered);
        }
        18 => {
            app.make_event_independent::<E3>();
        }
        19 => {
            app.make_event_independent::<E1>();
        }
        20 => {
            app.make_trigger_independent::<E5>();
        }
        21 => {
            app.make_trigger_independent::<E6>();
        }
        22 => {
            app.add_server_event::<E2>(Channel::Unordered);
        }
        23 => {
            app.add_client_event::<E3>(Channel::Unordered);
        }
        24 => {
            app.add_server_trigger::<E3>(Channel::Ordered);
        }
        25 => {
            app.add_server_event::<E4>(Channel::Ordered);
        }
        26 => {
            app.make_trigger_independent::<E3>();
        }
        27 => {
            app.add_server_event::<E5>(Channel::Ordered);
        }
        28 => {
            app.make_event_independent::<E5>();
        }
        29 => {
            app.replicate_with_priority(usize::MAX, RuleFns::<D>::default());
        }
        30 => {
            app.replicate_with_priority(usize::MAX - 1, RuleFns::<D>::default());
        }
        _ => unreachable!(),
    }
}

#[derive(Resource, Default)]
struct Hs {
    mismatch: u32,
    requests: Vec<Entity>,
}

/// Unrelated local state of an app (shifts component / resource ids); never part of the protocol.
#[derive(Component, Default)]
struct LocalA(u8);
#[derive(Component, Default)]
struct LocalB(u64);
#[derive(Component, Default)]
struct LocalC;
#[derive(Resource, Default)]
struct LocalRes(u32);

fn add_noise(app: &mut App, kind: u8) {
    match kind % 4 {
        0 => {
            app.world_mut().register_component::<LocalA>();
        }
        1 => {
            app.init_resource::<LocalRes>();
            app.world_mut().register_component::<LocalB>();
        }
        2 => {
            app.world_mut().spawn((LocalA(1), LocalB(2), LocalC));
        }
        _ => {
            app.world_mut().register_component::<LocalC>();
            app.world_mut().register_component::<A>();
            app.world_mut().register_component::<D>();
        }
    }
}

fn build(seq: &[usize], auth: AuthMethod) -> App {
    build_with_noise(seq, auth, 0, None)
}

/// `noise` != 0: unrelated local components/resources are created before and between the registrations.
/// `track_at`: mutate-message tracking (not a registration) is switched on before the registration
/// with that index (`seq.len()` = after all of them).
fn build_with_noise(seq: &[usize], auth: AuthMethod, noise: u64, track_at: Option<usize>) -> App {
    let mut app = App::new();
    app.add_plugins((
        MinimalPlugins,
        RepliconPlugins.set(RepliconSharedPlugin { auth_method: auth }).set(ServerPlugin { tick_policy: TickPolicy::EveryFrame, ..Default::default() }),
    ))
    .init_resource::<Hs>()
    .add_mapped_client_event::<Probe>(Channel::Ordered)
    .add_systems(
        Update,
        (|mut commands: Commands, mut w: EventWriter<Probe>| {
            let local = commands.spawn_empty().id();
            w.write(Probe(local));
        })
        .run_if(client_just_connected),
    );
    let mut n = Rng::new(noise);
    if noise != 0 {
        add_noise(&mut app, n.next() as u8);
    }
    for (i, a) in seq.iter().enumerate() {
        if track_at == Some(i) {
            app.track_mutate_messages();
        }
        apply(&mut app, *a);
        if noise != 0 && n.below(2) == 0 {
            add_noise(&mut app, n.next() as u8);
        }
    }
    if track_at.is_some_and(|t| t >= seq.len()) {
        app.track_mutate_messages();
    }
    if auth == AuthMethod::ProtocolCheck {
        app.add_observer(|_t: Trigger<ProtocolMismatch>, mut h: ResMut<Hs>| h.mismatch += 1);
        app.add_systems(Last, |mut r: EventReader<DisconnectRequest>, mut h: ResMut<Hs>| {
            for e in r.read() {
                h.requests.push(e.client);
            }
        });
    }
    app.finish();
    app
}

fn hash_of(seq: &[usize]) -> String {
    let app = build(seq, AuthMethod::ProtocolCheck);
    format!("{:?}", app.world().resource::<ProtocolHash>())
}

fn gen_seq(r: &mut Rng) -> Vec<usize> {
    for _ in 0..200 {
        let len = r.below(9);
        let mut s = vec![];
        for _ in 0..len {
            let a = r.below(ACTIONS.len());
            if !s.contains(&a) {
                s.push(a);
            }
        }
        // add prerequisites in front where needed
        let mut fixed = vec![];
        for a in s {
            if let Some(p) = prerequisite(a) {
                if !fixed.contains(&p) {
                    fixed.push(p);
                }
            }
            if !fixed.contains(&a) {
                fixed.push(a);
            }
        }
        if valid(&fixed) {
            return fixed;
        }
    }
    vec![]
}

fn edits(seq: &[usize]) -> Vec<(String, Vec<usize>)> {
    let mut out = vec![];
    for i in 0..seq.len().saturating_sub(1) {
        let mut s = seq.to_vec();
        s.swap(i, i + 1);
        out.push((format!("swap {i},{}", i + 1), s));
    }
    for i in 0..seq.len() {
        let mut s = seq.to_vec();
        s.remove(i);
        out.push((format!("delete {i}"), s));
        for a in 0..ACTIONS.len() {
            if a == seq[i] {
                continue;
            }
            let mut s = seq.to_vec();
            s[i] = a;
            out.push((format!("change {i} to {}", ACTIONS[a]), s));
        }
    }
    for i in 0..=seq.len() {
        for a in 0..ACTIONS.len() {
            let mut s = seq.to_vec();
            s.insert(i, a);
            out.push((format!("insert {} at {i}", ACTIONS[a]), s));
        }
    }
    out.retain(|(_, s)| valid(s) && s != seq);
    out
}

fn names(seq: &[usize]) -> Vec<&'static str> {
    seq.iter().map(|a| ACTIONS[*a]).collect()
}

struct Case {
    seq: Vec<usize>,
    errs: Vec<String>,
    pairs: u64,
    handshakes: u64,
    reconnect_scenarios: u64,
    crossproc: u64,
}

fn handshake(case: &mut Case, server_seq: &[usize], client_seq: &[usize]) {
    // half of the single handshakes go through a Connecting phase (decided by the pair itself)
    let via = (server_seq.len() + client_seq.iter().sum::<usize>()) % 2 == 0;
    sessions(case, client_seq, &[server_seq], via);
}

/// One client app, one session after the other against freshly built servers: every handshake is
/// judged on its own (a transport with an asynchronous handshake reports `Connecting` first).
fn sessions(case: &mut Case, client_seq: &[usize], server_seqs: &[&[usize]], via_connecting: bool) {
    let mut client = build(client_seq, AuthMethod::ProtocolCheck);
    for (si, server_seq) in server_seqs.iter().enumerate() {
        case.handshakes += 1;
        let mut server = build(server_seq, AuthMethod::ProtocolCheck);
        let same = format!("{:?}", server.world().resource::<ProtocolHash>()) == format!("{:?}", client.world().resource::<ProtocolHash>());
        server.world_mut().resource_mut::<RepliconServer>().set_running(true);
        let ce = server.world_mut().spawn(ConnectedClient { max_size: 1200 }).id();
        // every other session a second connection's broken handshake (first byte only) is queued in
        // front of the client's on the same channel in the same frame
        let neighbour = if (si + client_seq.len()) % 2 == 0 { Some(server.world_mut().spawn(ConnectedClient { max_size: 1200 }).id()) } else { None };
        let notified_before = client.world().resource::<Hs>().mismatch;
        if via_connecting {
            client.world_mut().resource_mut::<RepliconClient>().set_status(RepliconClientStatus::Connecting);
            client.update();
            if si % 2 == 1 {
                client.update();
            }
        }
        client.world_mut().resource_mut::<RepliconClient>().set_status(RepliconClientStatus::Connected);
        for _ in 0..4 {
            client.update();
            let out: Vec<_> = client.world_mut().resource_mut::<RepliconClient>().drain_sent().collect();
            for (ch, m) in out {
                if let Some(nb) = neighbour {
                    server.world_mut().resource_mut::<RepliconServer>().insert_received(nb, ch, m.slice(..1.min(m.len())));
                }
                server.world_mut().resource_mut::<RepliconServer>().insert_received(ce, ch, m);
            }
            server.update();
            let out: Vec<_> = server.world_mut().resource_mut::<RepliconServer>().drain_sent().collect();
            for (_, ch, m) in out {
                client.world_mut().resource_mut::<RepliconClient>().insert_received(ch, m);
            }
        }
        client.update();
        let authorized = server.world().entity(ce).contains::<AuthorizedClient>();
        let requests = server.world().resource::<Hs>().requests.clone();
        let notified = client.world().resource::<Hs>().mismatch - notified_before;
        let ctx = format!(
            "session {} of the client app{}{}, server {:?} / client {:?}",
            si + 1,
            if via_connecting { ", connected through a Connecting phase" } else { "" },
            if neighbour.is_some() { ", behind a second connection's truncated handshake" } else { "" },
            names(server_seq),
            names(client_seq)
        );
        if same {
            if !authorized {
                case.errs.push(format!("equal hashes but the client was not authorized ({ctx})"));
            }
            if !requests.is_empty() || notified != 0 {
                case.errs.push(format!("equal hashes but mismatch handling ran: requests {requests:?}, notifications {notified} ({ctx})"));
            }
        } else {
            if authorized {
                case.errs.push(format!("different hashes but the client was authorized ({ctx})"));
            }
            if requests != vec![ce] {
                case.errs.push(format!("different hashes: expected one DisconnectRequest for {ce}, got {requests:?} ({ctx})"));
            }
            if notified != 1 {
                case.errs.push(format!("different hashes: client was notified {notified} times ({ctx})"));
            }
        }
        // the session ends
        client.world_mut().resource_mut::<RepliconClient>().set_status(RepliconClientStatus::Disconnected);
        client.update();
    }
}

fn run_case(seed: u64, exe: Option<&str>) -> Case {
    let mut r = Rng::new(seed);
    let seq = gen_seq(&mut r);
    let mut case = Case { seq: seq.clone(), errs: vec![], pairs: 0, handshakes: 0, reconnect_scenarios: 0, crossproc: 0 };
    let res = catch_unwind(AssertUnwindSafe(|| {
        let h0 = hash_of(&seq);
        // determinism within the process
        if hash_of(&seq) != h0 {
            case.errs.push(format!("same sequence hashed differently twice in one process: {:?}", names(&seq)));
        }
        case.pairs += 1;
        // the same registrations in an app with unrelated local state
        for k in 1..=3u64 {
            let app = build_with_noise(&seq, AuthMethod::ProtocolCheck, seed.wrapping_mul(7) + k, None);
            let h = format!("{:?}", app.world().resource::<ProtocolHash>());
            case.pairs += 1;
            if h != h0 {
                case.errs.push(format!("same registration sequence {:?} hashes to {h0} in a bare app and to {h} in an app with unrelated local components/resources", names(&seq)));
                break;
            }
        }
        // both sides switch mutate-message tracking on, at different points of the same registration sequence
        {
            let (p1, p2) = (r.below(seq.len() + 1), r.below(seq.len() + 1));
            let h1 = format!("{:?}", build_with_noise(&seq, AuthMethod::ProtocolCheck, 0, Some(p1)).world().resource::<ProtocolHash>());
            let h2 = format!("{:?}", build_with_noise(&seq, AuthMethod::ProtocolCheck, 0, Some(p2)).world().resource::<ProtocolHash>());
            case.pairs += 1;
            if h1 != h2 {
                case.errs.push(format!("same registration sequence {:?}, tracking switched on before registration {p1} in one app and before registration {p2} in the other: hashes {h1} and {h2}", names(&seq)));
            }
        }
        // determinism across processes
        if let Some(exe) = exe {
            let arg = seq.iter().map(|a| a.to_string()).collect::<Vec<_>>().join(",");
            if let Ok(o) = Command::new(exe).args(["--hash-of", &arg]).output() {
                let other = String::from_utf8_lossy(&o.stdout).trim().to_string();
                case.crossproc += 1;
                if other != h0 {
                    case.errs.push(format!("sequence {:?} hashes to {h0} here and to {other} in another process", names(&seq)));
                }
            }
        }
        // all single-step edits must change the hash
        let mut seen: BTreeMap<String, Vec<usize>> = BTreeMap::new();
        seen.insert(h0.clone(), seq.clone());
        let all = edits(&seq);
        for (what, s) in &all {
            let h = hash_of(s);
            case.pairs += 1;
            if let Some(prev) = seen.get(&h) {
                if prev != s {
                    case.errs.push(format!("different registration sequences share hash {h}: {:?} vs {:?} (edit: {what})", names(prev), names(s)));
                }
            } else {
                seen.insert(h, s.clone());
            }
        }
        // handshake outcome: identical pair and one edited pair
        handshake(&mut case, &seq, &seq);
        if !all.is_empty() {
            let (_, s) = &all[r.below(all.len())];
            if r.below(2) == 0 {
                handshake(&mut case, &seq, s);
            } else {
                handshake(&mut case, s, &seq);
            }
        }
        // the same client app over three sessions: compatible server, an edited one, compatible again
        if !all.is_empty() {
            let (_, s) = &all[r.below(all.len())];
            sessions(&mut case, &seq, &[&seq, s, &seq], r.below(2) == 0);
            case.reconnect_scenarios += 1;
        }
        // an independent random pair
        let other = gen_seq(&mut r);
        let ho = hash_of(&other);
        case.pairs += 1;
        if (ho == h0) != (other == seq) {
            case.errs.push(format!("hash equality {} but sequence equality {} for {:?} vs {:?}", ho == h0, other == seq, names(&seq), names(&other)));
        }
    }));
    if res.is_err() {
        case.errs.push(format!("panic: {}", take_panic().unwrap_or_default()));
    }
    case
}

fn main() {
    let args = Args::from_env();
    if let Some(s) = args.get("--hash-of") {
        let seq: Vec<usize> = s.split(',').filter(|x| !x.is_empty()).map(|x| x.parse().unwrap()).collect();
        println!("{}", hash_of(&seq));
        return;
    }
    quiet_panics();
    let exe = std::env::current_exe().ok().map(|p| p.to_string_lossy().to_string());
    if let Some(seed) = args.get("--replay") {
        let c = run_case(seed.parse().unwrap(), exe.as_deref());
        println!("sequence: {:?}", names(&c.seq));
        for e in &c.errs {
            println!("VIOLATION [C14]: {e}");
        }
        println!("{} hash pairs, {} handshakes", c.pairs, c.handshakes);
        return;
    }
    let from: u64 = args.num("--from", 0);
    let to: u64 = args.num("--to", 0);
    let out = args.get("--out").expect("--out").to_string();
    let replay_dir = args.get("--replay-dir").unwrap_or("/verif/replays").to_string();
    let mut res = ShardResult::default();
    for seed in from..to {
        let c = run_case(seed, if seed % 8 == 0 { exe.as_deref() } else { None });
        res.runs += 1;
        res.obs.add("hash_comparisons", c.pairs);
        res.obs.add("handshakes", c.handshakes);
        res.obs.add("three_session_reconnect_scenarios", c.reconnect_scenarios);
        res.obs.add("cross_process_comparisons", c.crossproc);
        if !c.seq.is_empty() {
            let h = fnv64(format!("{:?}", c.seq).as_bytes());
            if res.nontrivial.insert(h) && res.samples.len() < 2 {
                res.samples.push(json!({"seed": seed, "sequence": names(&c.seq), "single_step_edits_checked": c.pairs}));
            }
        }
        if !c.errs.is_empty() {
            let path = format!("{replay_dir}/C14-s{seed}.json");
            write_json(&path, &json!({"engine": "c14", "seed": seed, "sequence": names(&c.seq), "violations": c.errs}));
            for e in c.errs.iter().take(3) {
                res.violations.push(json!({"props": ["C14"], "seed": seed, "msg": e, "replay": path}));
            }
        }
    }
    let mut j = res.to_json();
    j["harness_errors"] = json!([]);
    j["rule"] = json!("one case = one seed-determined registration sequence (0..8 distinct actions out of 25: single / once / periodic / bundle / tuple / custom-priority rules, client+server events and triggers incl. one type in two roles, independence marks) together with ALL its single-step edits (neighbour swaps, deletions, insertions and replacements by every other action); hash equality must coincide with sequence equality; every 8th case re-computes the hash in a second process; two ProtocolCheck handshakes per case (equal pair, edited pair); non-trivial = non-empty sequence; distinct = distinct sequence; the handshakes are played by one client app per scenario - single sessions (half of them through a Connecting phase) and a three-session scenario compatible / edited / compatible server, each session judged on its own");
    write_json(&out, &j);
}
