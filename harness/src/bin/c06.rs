//! C06: hostile bytes on every client->server channel, from authorized and unauthorized clients.
//!
//! Monitors: panic escaping `server.update()` (catch_unwind), size of the largest single
//! allocation request and of all requests while the server processes one hostile message
//! (counting global allocator), process death (observed by the driver, which localises the
//! seed), and a well-behaved client that must keep converging afterwards.
use bevy::{ecs::entity::MapEntities, prelude::*, time::TimeUpdateStrategy};
use bevy_replicon::{prelude::*, shared::server_entity_map::ServerEntityMap};
use bytes::Bytes;
use replicon_verif::{util::*, wire};
use serde::{Deserialize, Serialize};
use serde_json::json;
use std::{
    alloc::{GlobalAlloc, Layout, System},
    io::Write,
    panic::{AssertUnwindSafe, catch_unwind},
    sync::atomic::{AtomicUsize, Ordering::Relaxed},
    time::Duration,
};

struct Counting;
static MAX_REQ: AtomicUsize = AtomicUsize::new(0);
static SUM_REQ: AtomicUsize = AtomicUsize::new(0);

/// Development aid: `VERIF_ALLOC_TRACE=<bytes>` prints a backtrace for every request at least that large.
static TRACE_AT: AtomicUsize = AtomicUsize::new(usize::MAX);
static IN_TRACE: std::sync::atomic::AtomicBool = std::sync::atomic::AtomicBool::new(false);

fn trace_big(size: usize) {
    if size >= TRACE_AT.load(Relaxed) && !IN_TRACE.swap(true, Relaxed) {
        eprintln!("allocation request of {size} bytes at\n{}", std::backtrace::Backtrace::force_capture());
        IN_TRACE.store(false, Relaxed);
    }
}

unsafe impl GlobalAlloc for Counting {
    unsafe fn alloc(&self, l: Layout) -> *mut u8 {
        trace_big(l.size());
        MAX_REQ.fetch_max(l.size(), Relaxed);
        SUM_REQ.fetch_add(l.size(), Relaxed);
        unsafe { System.alloc(l) }
    }
    unsafe fn alloc_zeroed(&self, l: Layout) -> *mut u8 {
        MAX_REQ.fetch_max(l.size(), Relaxed);
        SUM_REQ.fetch_add(l.size(), Relaxed);
        unsafe { System.alloc_zeroed(l) }
    }
    unsafe fn realloc(&self, p: *mut u8, l: Layout, new_size: usize) -> *mut u8 {
        trace_big(new_size);
        MAX_REQ.fetch_max(new_size, Relaxed);
        SUM_REQ.fetch_add(new_size.saturating_sub(l.size()), Relaxed);
        unsafe { System.realloc(p, l, new_size) }
    }
    unsafe fn dealloc(&self, p: *mut u8, l: Layout) {
        unsafe { System.dealloc(p, l) }
    }
}

#[global_allocator]
static GLOBAL: Counting = Counting;

/// Sequence number of the server frame that is currently running (0 = none running).
static FRAME_RUNNING: std::sync::atomic::AtomicU64 = std::sync::atomic::AtomicU64::new(0);
static FRAME_SEQ: std::sync::atomic::AtomicU64 = std::sync::atomic::AtomicU64::new(0);
/// A server frame takes microseconds of CPU; one that has burnt this much *CPU time* is CPU exhaustion.
/// (CPU time of the process, not wall-clock time: on an overloaded machine a worker can be kept off
/// the CPU for a long time without doing anything wrong.)
const FRAME_CPU_LIMIT_MS: u64 = 20_000;

/// utime + stime of this process in milliseconds, from /proc/self/stat.
fn process_cpu_ms() -> Option<u64> {
    let s = std::fs::read_to_string("/proc/self/stat").ok()?;
    // the command name (field 2) may contain spaces: fields are counted after the closing parenthesis
    let rest = &s[s.rfind(')')? + 2..];
    let f: Vec<&str> = rest.split_whitespace().collect();
    let (ut, st): (u64, u64) = (f.get(11)?.parse().ok()?, f.get(12)?.parse().ok()?);
    Some((ut + st) * 10) // clock ticks of 1/100 s
}

fn start_watchdog() {
    std::thread::spawn(move || {
        let mut watching: Option<(u64, u64)> = None; // (frame sequence number, CPU ms when first seen)
        loop {
            std::thread::sleep(Duration::from_millis(500));
            let running = FRAME_RUNNING.load(Relaxed);
            let Some(cpu) = process_cpu_ms() else { continue };
            match watching {
                Some((seq, since)) if running == seq && seq != 0 => {
                    if cpu.saturating_sub(since) > FRAME_CPU_LIMIT_MS {
                        eprintln!("watchdog: a server frame processing a hostile message has burnt more than {FRAME_CPU_LIMIT_MS} ms of CPU time without returning (CPU exhaustion out of proportion to the message)");
                        std::process::abort();
                    }
                }
                _ => watching = if running != 0 { Some((running, cpu)) } else { None },
            }
        }
    });
}

fn frame_begins() {
    let seq = FRAME_SEQ.fetch_add(1, Relaxed) + 1;
    FRAME_RUNNING.store(seq, Relaxed);
}

fn frame_ends() {
    FRAME_RUNNING.store(0, Relaxed);
}

// (largest request seen on the unchanged tree while serving: ~230 KB, the per-client table of
// unacknowledged mutate messages of a client that never acknowledges)
const MAX_SINGLE: usize = 1 << 20;
const MAX_TOTAL: usize = 32 << 20;

#[derive(Component, Serialize, Deserialize, Clone, PartialEq, Debug)]
struct Hp(u32);

#[derive(Event, Serialize, Deserialize, Debug, Clone)]
struct Ev {
    a: u32,
    s: String,
    v: Vec<u16>,
}
#[derive(Event, Serialize, Deserialize, Debug, Clone, MapEntities)]
struct MEv {
    #[entities]
    e: Entity,
    o: Option<u8>,
}
#[derive(Event, Serialize, Deserialize, Debug, Clone)]
struct Trig(u64);
#[derive(Event, Serialize, Deserialize, Debug, Clone)]
struct Good(u32);
/// Trigger of the well-behaved client, aimed at the probe entity: its targets must arrive untouched
/// whatever a hostile peer put on the trigger channels in the same frame.
#[derive(Event, Serialize, Deserialize, Debug, Clone)]
struct GoodTrig(u32);

#[derive(Resource, Default)]
struct Seen {
    good: Vec<(Entity, u32)>,
    /// (sender, seq, target) per observer invocation
    good_trigs: Vec<(Entity, u32, Entity)>,
    hostile_events: u64,
    hostile_trigs: u64,
}

fn mk(auth: AuthMethod) -> App {
    let mut app = App::new();
    app.add_plugins((
        MinimalPlugins,
        RepliconPlugins.set(RepliconSharedPlugin { auth_method: auth }).set(ServerPlugin { tick_policy: TickPolicy::EveryFrame, ..Default::default() }),
    ))
    .insert_resource(TimeUpdateStrategy::ManualDuration(Duration::from_millis(10)))
    .init_resource::<Seen>()
    .replicate::<Hp>()
    .add_client_event::<Ev>(Channel::Ordered)
    .add_mapped_client_event::<MEv>(Channel::Unordered)
    .add_client_trigger::<Trig>(Channel::Unreliable)
    .add_client_event::<Good>(Channel::Ordered)
    .add_client_trigger::<GoodTrig>(Channel::Ordered)
    .add_systems(
        Last,
        (
            |mut r: EventReader<FromClient<Good>>, mut s: ResMut<Seen>| {
                for e in r.read() {
                    s.good.push((e.client, e.event.0));
                }
            },
            |mut a: EventReader<FromClient<Ev>>, mut b: EventReader<FromClient<MEv>>, mut s: ResMut<Seen>| {
                s.hostile_events += a.read().count() as u64 + b.read().count() as u64;
            },
        ),
    )
    .add_observer(|_t: Trigger<FromClient<Trig>>, mut s: ResMut<Seen>| {
        s.hostile_events += 1;
        s.hostile_trigs += 1;
    })
    .add_observer(|t: Trigger<FromClient<GoodTrig>>, mut s: ResMut<Seen>| {
        let (c, q, tg) = (t.event().client, t.event().event.0, t.target());
        s.good_trigs.push((c, q, tg));
    });
    app.finish();
    app
}

struct World6 {
    auth: AuthMethod,
    server: App,
    good: App,
    good_ent: Entity,
    unauth: Entity,
    authd: Entity,
    probe: Entity,
    nch: usize,
    proto: usize,
    hp: u32,
    good_seq: u32,
    /// (channel, bytes) of the well-behaved client's own handshake message, if the auth method has one
    handshake: Option<(usize, Bytes)>,
    verbose: bool,
    // results
    inputs: u64,
    errs: Vec<String>,
    max_single_seen: usize,
    convergence_checks: u64,
    legit_checks: u64,
    retention_checks: u64,
    malformed_trigger_checks: u64,
    /// server frames since one that was fed a trigger message with a decodable target list
    frames_since_valid_trig: u64,
    /// a well-formed trigger message was queued outside `feed` for the next frame
    injected_valid_trig: bool,
    lonely_floods: u64,
    frames: u64,
    /// a panic unwound through App::update: the world is poisoned, nothing more is fed
    dead: bool,
    /// Miri lane: only the server app runs (the client apply path has a known, unrelated Miri report)
    server_only: bool,
    max_inputs: u64,
}

impl World6 {
    fn new(auth: AuthMethod, verbose: bool, server_only: bool, max_inputs: u64) -> Self {
        let mut server = mk(auth);
        server.world_mut().resource_mut::<RepliconServer>().set_running(true);
        let unauth = server.world_mut().spawn(ConnectedClient { max_size: 1200 }).id();
        let authd = server.world_mut().spawn((ConnectedClient { max_size: 1200 }, AuthorizedClient)).id();
        let good_ent = server.world_mut().spawn(ConnectedClient { max_size: 1200 }).id();
        let probe = server.world_mut().spawn((Replicated, Hp(0))).id();
        let mut good = mk(auth);
        good.world_mut().resource_mut::<RepliconClient>().set_status(RepliconClientStatus::Connected);
        let nch = server.world().resource::<RepliconChannels>().client_channels().len();
        let proto = (auth == AuthMethod::ProtocolCheck) as usize;
        assert_eq!(nch, 1 + proto + 5, "harness: unexpected client channel layout");
        let mut w = World6 {
            auth,
            server,
            good,
            good_ent,
            unauth,
            authd,
            probe,
            nch,
            proto,
            hp: 0,
            good_seq: 0,
            handshake: None,
            verbose,
            inputs: 0,
            errs: vec![],
            max_single_seen: 0,
            convergence_checks: 0,
            legit_checks: 0,
            retention_checks: 0,
            malformed_trigger_checks: 0,
            frames_since_valid_trig: 0,
            injected_valid_trig: false,
            lonely_floods: 0,
            frames: 0,
            dead: false,
            server_only,
            max_inputs,
        };
        if auth == AuthMethod::Custom {
            w.server.world_mut().entity_mut(good_ent).insert(AuthorizedClient);
        }
        for _ in 0..4 {
            w.exchange_good();
        }
        w
    }

    fn server_update(&mut self, what: &str) -> bool {
        self.frames += 1;
        self.frames_since_valid_trig += 1;
        frame_begins();
        let r = catch_unwind(AssertUnwindSafe(|| self.server.update()));
        frame_ends();
        if r.is_err() {
            let p = take_panic().unwrap_or_default();
            let p: String = p.lines().take(2).collect::<Vec<_>>().join(" ").chars().take(300).collect();
            self.errs.push(format!("server panicked while processing {what}: {p}"));
            self.dead = true;
            return false;
        }
        true
    }

    /// Lock-step exchange with the well-behaved client.
    fn exchange_good(&mut self) -> bool {
        if self.dead {
            return false;
        }
        if !self.server_update("legitimate traffic") {
            return false;
        }
        if self.server_only {
            self.server.world_mut().resource_mut::<RepliconServer>().drain_sent().for_each(drop);
            return true;
        }
        let msgs: Vec<_> = self.server.world_mut().resource_mut::<RepliconServer>().drain_sent().collect();
        for (e, ch, m) in msgs {
            if e == self.good_ent {
                self.good.world_mut().resource_mut::<RepliconClient>().insert_received(ch, m);
            }
        }
        self.good.update();
        let msgs: Vec<_> = self.good.world_mut().resource_mut::<RepliconClient>().drain_sent().collect();
        for (ch, m) in msgs {
            if self.handshake.is_none() && self.proto == 1 && ch == 1 {
                self.handshake = Some((ch, m.clone()));
            }
            self.server.world_mut().resource_mut::<RepliconServer>().insert_received(self.good_ent, ch, m);
        }
        true
    }

    /// A message from a connection other than the two standing hostile ones, processed by the next frame.
    fn inject(&mut self, sender: Entity, ch: usize, m: Vec<u8>) {
        if ch == 3 + self.proto && targets_decode(&m) {
            self.injected_valid_trig = true;
        }
        self.server.world_mut().resource_mut::<RepliconServer>().insert_received(sender, ch, m);
    }

    /// One hostile message, one server frame, all monitors.
    fn feed(&mut self, sender_auth: bool, ch: usize, bytes: &[u8]) {
        self.feed_batch(sender_auth, &[(ch, bytes.to_vec())]);
    }

    fn feed_batch(&mut self, sender_auth: bool, batch: &[(usize, Vec<u8>)]) {
        let legit = !self.server_only && (batch.len() > 1 || self.inputs % 16 == 7);
        self.feed_batch_with(sender_auth, batch, legit);
    }

    /// `legit`: a well-behaved client's event is queued behind the hostile messages of the same
    /// server frame and must still be handled in that frame.
    fn feed_batch_with(&mut self, sender_auth: bool, batch: &[(usize, Vec<u8>)], legit: bool) {
        if self.dead || self.inputs >= self.max_inputs {
            return;
        }
        let sender = if sender_auth { self.authd } else { self.unauth };
        let mut total_len = 0;
        let mut held: Vec<(usize, Bytes)> = vec![];
        for (ch, bytes) in batch {
            self.inputs += 1;
            total_len += bytes.len();
            if self.verbose {
                println!("input: sender_authorized={sender_auth} channel={ch} bytes={bytes:02x?}");
                let _ = std::io::stdout().flush();
            }
            let b = Bytes::copy_from_slice(bytes);
            held.push((*ch, b.clone()));
            self.server.world_mut().resource_mut::<RepliconServer>().insert_received(sender, *ch, b);
        }
        let mut legit_seq = None;
        let mut legit_trig = false;
        // reference decoding of what goes to the hostile trigger channel: a message whose target list
        // does not decode (count, then that many valid entity encodings) must be discarded
        let trig_ch = 3 + self.proto;
        let trig_msgs: Vec<&Vec<u8>> = batch.iter().filter(|(ch, _)| *ch == trig_ch).map(|(_, b)| b).collect();
        // (a trigger received in one frame may be observed in the next: only judge a frame whose own and
        // whose predecessor's trigger messages were all malformed)
        let any_valid_trig = trig_msgs.iter().any(|b| targets_decode(b)) || std::mem::take(&mut self.injected_valid_trig);
        let all_trigs_malformed = !trig_msgs.is_empty() && !any_valid_trig && self.frames_since_valid_trig >= 1;
        let hostile_trigs_before = self.server.world().resource::<Seen>().hostile_trigs;
        if legit {
            self.good_seq += 1;
            let seq = self.good_seq;
            self.good.world_mut().send_event(Good(seq));
            let probe_on_client = self.good.world().resource::<ServerEntityMap>().to_client().get(&self.probe).copied();
            if let Some(pc) = probe_on_client {
                self.good.world_mut().client_trigger_targets(GoodTrig(seq), pc);
            }
            self.good.update();
            let msgs: Vec<_> = self.good.world_mut().resource_mut::<RepliconClient>().drain_sent().collect();
            for (ch, m) in msgs {
                self.server.world_mut().resource_mut::<RepliconServer>().insert_received(self.good_ent, ch, m);
            }
            self.server.world_mut().resource_mut::<Seen>().good.clear();
            self.server.world_mut().resource_mut::<Seen>().good_trigs.clear();
            legit_seq = Some(seq);
            legit_trig = probe_on_client.is_some();
        }
        MAX_REQ.store(0, Relaxed);
        SUM_REQ.store(0, Relaxed);
        let what = if batch.len() == 1 {
            format!("{:02x?} on channel {} from {} client", batch[0].1, batch[0].0, if sender_auth { "an authorized" } else { "an unauthorized" })
        } else {
            format!("a batch of {} messages (first {:02x?} on channel {}) from {} client", batch.len(), batch[0].1, batch[0].0, if sender_auth { "an authorized" } else { "an unauthorized" })
        };
        let ok = self.server_update(&what);
        if any_valid_trig {
            self.frames_since_valid_trig = 0;
        }
        let max = MAX_REQ.load(Relaxed);
        let sum = SUM_REQ.load(Relaxed);
        self.max_single_seen = self.max_single_seen.max(max);
        if total_len <= 4096 && (max >= MAX_SINGLE || sum >= MAX_TOTAL) {
            self.errs.push(format!("server requested a single allocation of {max} bytes ({sum} bytes in total) while processing {what}"));
        }
        if ok {
            // "discarded": once the frame that processed it is over, the server holds no reference to
            // the message any more (our clone is the only one left)
            for (ch, b) in &held {
                self.retention_checks += 1;
                if !b.is_empty() && !b.is_unique() {
                    self.errs.push(format!("the {} byte message {:02x?} on channel {ch} is still held by the server after the frame that processed {what}", b.len(), &b[..b.len().min(24)]));
                    break;
                }
            }
            if let Some(seq) = legit_seq {
                self.legit_checks += 1;
                let ge = self.good_ent;
                if !self.server.world().resource::<Seen>().good.contains(&(ge, seq)) {
                    self.errs.push(format!("an event of a well-behaved client queued in the same frame behind {what} was not handled by the server"));
                }
                if legit_trig {
                    // (what the hostile peers themselves managed to trigger on that channel is their business)
                    let got: Vec<_> = self.server.world().resource::<Seen>().good_trigs.iter().copied().filter(|(c, _, _)| *c == ge).collect();
                    if got != vec![(ge, seq, self.probe)] {
                        self.errs.push(format!(
                            "a trigger of a well-behaved client aimed at {} and queued in the same frame behind {what} was observed as {got:?} (expected once, for that entity only)",
                            self.probe
                        ));
                    }
                }
            }
            if all_trigs_malformed {
                self.malformed_trigger_checks += 1;
                let n = self.server.world().resource::<Seen>().hostile_trigs - hostile_trigs_before;
                if n != 0 {
                    self.errs.push(format!("a trigger message whose target list does not decode was not discarded: {n} trigger observation(s) while processing {what}"));
                }
            }
            // mismatch notifications, disconnect requests etc. are not our business here; replication
            // for the well-behaved client is delivered so that it stays in sync
            let msgs: Vec<_> = self.server.world_mut().resource_mut::<RepliconServer>().drain_sent().collect();
            if legit_seq.is_some() {
                for (e, ch, m) in msgs {
                    if e == self.good_ent {
                        self.good.world_mut().resource_mut::<RepliconClient>().insert_received(ch, m);
                    }
                }
            }
        }
    }

    /// The server must keep serving a well-behaved client: replication and events.
    fn check_service(&mut self, after: &str) {
        if !self.errs.is_empty() || self.server_only {
            return;
        }
        self.convergence_checks += 1;
        self.hp += 1;
        let hp = self.hp;
        self.server.world_mut().entity_mut(self.probe).get_mut::<Hp>().unwrap().0 = hp;
        self.good_seq += 1;
        let seq = self.good_seq;
        self.good.world_mut().send_event(Good(seq));
        self.server.world_mut().resource_mut::<Seen>().good.clear();
        let mut got = None;
        let mut ev_ok = false;
        for _ in 0..8 {
            if !self.exchange_good() {
                return;
            }
            let ge = self.good_ent;
            ev_ok |= self.server.world().resource::<Seen>().good.contains(&(ge, seq));
            let map = self.good.world().resource::<ServerEntityMap>();
            got = map.to_client().get(&self.probe).and_then(|c| self.good.world().get::<Hp>(*c)).map(|h| h.0);
            if got == Some(hp) && ev_ok {
                return;
            }
        }
        if got != Some(hp) {
            self.errs.push(format!("after {after}: well-behaved client sees Hp={got:?}, server has {hp} (replication no longer served)"));
        }
        if !ev_ok {
            self.errs.push(format!("after {after}: event of the well-behaved client no longer reaches the server"));
        }
        // the server must not have started sending replication to the unauthorized client
    }
}

/// A freshly started server whose only connections are unauthorized ones: they flood every channel
/// for a while; nothing may be kept, and a well-behaved client that joins afterwards is served.
fn lonely_flood(w: &mut World6, r: &mut Rng) {
    if w.dead || w.server_only || !w.errs.is_empty() {
        return;
    }
    w.lonely_floods += 1;
    let auth = w.auth;
    let mut server = mk(auth);
    server.world_mut().resource_mut::<RepliconServer>().set_running(true);
    let probe = server.world_mut().spawn((Replicated, Hp(7))).id();
    let hostile: Vec<Entity> = (0..1 + r.below(2)).map(|_| server.world_mut().spawn(ConnectedClient { max_size: 1200 }).id()).collect();
    let nch = w.nch;
    let frames = 20 + r.below(60);
    let mut all_held: Vec<(usize, usize, Bytes)> = vec![];
    for f in 0..frames {
        for _ in 0..r.below(5) {
            let ch = if r.below(2) == 0 { 0 } else { r.below(nch) };
            let len = 1 + r.below(64);
            let m: Vec<u8> = if ch == 0 && r.below(2) == 0 {
                (0..len / 2 + 1).flat_map(|_| (r.next() as u16).to_le_bytes()).collect()
            } else {
                (0..len).map(|_| hostile_byte(r)).collect()
            };
            let b = Bytes::from(m);
            all_held.push((f, ch, b.clone()));
            w.inputs += 1;
            let h = hostile[r.below(hostile.len())];
            server.world_mut().resource_mut::<RepliconServer>().insert_received(h, ch, b);
        }
        w.frames += 1;
        MAX_REQ.store(0, Relaxed);
        frame_begins();
        let res = catch_unwind(AssertUnwindSafe(|| server.update()));
        frame_ends();
        if res.is_err() {
            w.errs.push(format!("server with only unauthorized connections panicked in frame {f} of a flood: {}", take_panic().unwrap_or_default().lines().next().unwrap_or("")));
            return;
        }
        let max = MAX_REQ.load(Relaxed);
        w.max_single_seen = w.max_single_seen.max(max);
        if max >= MAX_SINGLE {
            w.errs.push(format!("server with only unauthorized connections requested a single allocation of {max} bytes in frame {f} of a flood of messages <= 130 bytes"));
            return;
        }
        server.world_mut().resource_mut::<RepliconServer>().drain_sent().for_each(drop);
        for (f0, ch, b) in &all_held {
            w.retention_checks += 1;
            if !b.is_unique() {
                w.errs.push(format!(
                    "server with only unauthorized connections: the {} byte message {:02x?} received on channel {ch} in frame {f0} is still held after frame {f} ({} message(s) received so far)",
                    b.len(), &b[..b.len().min(24)], all_held.len()
                ));
                return;
            }
        }
        all_held.clear();
    }
    // a well-behaved client joins
    let ge = server.world_mut().spawn(ConnectedClient { max_size: 1200 }).id();
    if auth == AuthMethod::Custom {
        server.world_mut().entity_mut(ge).insert(AuthorizedClient);
    }
    let mut good = mk(auth);
    good.world_mut().resource_mut::<RepliconClient>().set_status(RepliconClientStatus::Connected);
    let mut got = None;
    for _ in 0..10 {
        good.update();
        let msgs: Vec<_> = good.world_mut().resource_mut::<RepliconClient>().drain_sent().collect();
        for (ch, m) in msgs {
            // (a truncated copy from a hostile connection is queued in front of it on the same channel)
            server.world_mut().resource_mut::<RepliconServer>().insert_received(hostile[0], ch, m.slice(..1.min(m.len())));
            server.world_mut().resource_mut::<RepliconServer>().insert_received(ge, ch, m);
        }
        w.frames += 1;
        if catch_unwind(AssertUnwindSafe(|| server.update())).is_err() {
            w.errs.push(format!("server panicked while a well-behaved client joined after a flood: {}", take_panic().unwrap_or_default().lines().next().unwrap_or("")));
            return;
        }
        let msgs: Vec<_> = server.world_mut().resource_mut::<RepliconServer>().drain_sent().collect();
        for (e, ch, m) in msgs {
            if e == ge {
                good.world_mut().resource_mut::<RepliconClient>().insert_received(ch, m);
            }
        }
        good.update();
        let msgs: Vec<_> = good.world_mut().resource_mut::<RepliconClient>().drain_sent().collect();
        for (ch, m) in msgs {
            server.world_mut().resource_mut::<RepliconServer>().insert_received(ge, ch, m);
        }
        let map = good.world().resource::<ServerEntityMap>();
        got = map.to_client().get(&probe).and_then(|c| good.world().get::<Hp>(*c)).map(|h| h.0);
        if got == Some(7) {
            break;
        }
    }
    w.convergence_checks += 1;
    if got != Some(7) {
        w.errs.push(format!("after a flood from unauthorized connections a well-behaved client that joins sees Hp={got:?}, the server has 7"));
    }
}

/// Reference decoder for the head of a trigger message: `count | entity * count | payload`.
fn targets_decode(b: &[u8]) -> bool {
    let Some((n, mut off)) = wire::varint(b) else { return false };
    for _ in 0..n {
        if off > b.len() {
            return false;
        }
        match wire::entity(&b[off..]) {
            Some((_, k)) => off += k,
            None => return false,
        }
    }
    true
}

fn vi(v: u64) -> Vec<u8> {
    let mut o = vec![];
    wire::write_varint(v, &mut o);
    o
}

fn hostile_byte(r: &mut Rng) -> u8 {
    let x = r.next();
    match x % 4 {
        0 => 0xff,
        1 => (x >> 8) as u8 & 0x7f,
        2 => 0x80 | (x >> 8) as u8,
        _ => (x >> 8) as u8,
    }
}

fn big(r: &mut Rng) -> u64 {
    match r.below(10) {
        0 => u64::MAX,
        1 => u64::MAX - 1,
        2 => 1 << 36,
        3 => (1 << 32) - 1 + r.below(3) as u64,
        4 => u32::MAX as u64,
        5 => 1 << 20,
        6 => (1 << 31) - 1 + r.below(3) as u64,
        7 => 1 << 62,
        8 => 100_000 + r.below(1000) as u64,
        _ => r.next(),
    }
}

fn entity_bytes(r: &mut Rng, w: &World6) -> Vec<u8> {
    match r.below(8) {
        0 => {
            let mut o = vec![];
            wire::write_entity(w.probe, &mut o);
            o
        }
        1 => [vi(1), vi(u32::MAX as u64)].concat(),              // generation overflow
        2 => [vi(1), vi(0x7FFF_FFFF)].concat(),                   // generation -> invalid bits
        3 => [vi(1), vi(0x7FFF_FFFE)].concat(),                   // highest valid generation
        4 => [vi((u32::MAX as u64) << 1 | 1), vi(big(r))].concat(),
        5 => vi(u64::MAX),
        6 => [vi((r.next() & 0xffff_ffff) << 1 | 1), vi(big(r) & 0xffff_ffff)].concat(),
        _ => vi(r.below(64) as u64 * 2),
    }
}

fn run_seed(seed: u64, thorough: bool, w: &mut World6) -> (&'static str, String) {
    let mut r = Rng::new(seed);
    let nch = w.nch;
    let p = w.proto;
    let (ch_acks, ch_ev, ch_mev, ch_trig) = (0usize, 1 + p, 2 + p, 3 + p);
    let kind = seed % 8;
    let desc;
    let name = match kind {
        0 | 1 => {
            // exhaustive short strings: block = (channel, sender, first byte)
            let b = seed / 8 * 2 + kind; // consecutive block numbers
            let first = (b % 256) as u8;
            let ch = ((b / 256) % nch as u64) as usize;
            let sender_auth = (b / 256 / nch as u64) % 2 == 1;
            if first == 0 {
                w.feed(sender_auth, ch, &[]);
            }
            w.feed(sender_auth, ch, &[first]);
            for x in 0..=255u8 {
                w.feed(sender_auth, ch, &[first, x]);
                if !w.errs.is_empty() {
                    break;
                }
            }
            if thorough && w.errs.is_empty() {
                'o: for x in 0..=255u8 {
                    for y in 0..=255u8 {
                        w.feed(sender_auth, ch, &[first, x, y]);
                        if !w.errs.is_empty() {
                            break 'o;
                        }
                    }
                }
            }
            desc = format!("all byte strings of length 1..{} starting with {first:#04x} on channel {ch} from {} client", if thorough { 3 } else { 2 }, if sender_auth { "the authorized" } else { "the unauthorized" });
            "exhaustive-short"
        }
        2 => {
            // acknowledgement channel: index lists, valid and junk, odd lengths, long
            for _ in 0..600 {
                let n = match r.below(5) {
                    0 => 1,
                    1 => 2,
                    2 => 3 + r.below(6),
                    3 => 100 + r.below(400),
                    _ => r.below(4),
                };
                let mut m: Vec<u8> = (0..n).flat_map(|_| (r.next() as u16).to_le_bytes()).collect();
                if r.below(3) == 0 {
                    m.push(r.next() as u8);
                }
                w.feed(r.below(2) == 0, ch_acks, &m);
            }
            desc = "600 acknowledgement messages (1..500 indices, odd lengths) from both senders".to_string();
            "acks"
        }
        3 => {
            // plain event with String / Vec<u16>: length inflation, truncation, invalid utf-8
            for _ in 0..600 {
                let a = vi(r.next() & 0xffff_ffff);
                let slen = r.below(6);
                let mut m = a.clone();
                match r.below(6) {
                    0 => {
                        m.extend(vi(big(&mut r)));
                        m.extend(r.bytes(slen));
                    }
                    1 => {
                        m.extend(vi(slen as u64));
                        m.extend((0..slen).map(|_| 0xffu8));
                        m.extend(vi(0));
                    }
                    2 => {
                        m.extend(vi(0));
                        m.extend(vi(big(&mut r)));
                        { let n = r.below(9); m.extend(r.bytes(n)); }
                    }
                    3 => {
                        m.extend(vi(2));
                        m.extend(b"ok");
                        m.extend(vi(3));
                        m.extend(vi(1));
                        m.extend(vi(70000));
                        m.extend(vi(big(&mut r)));
                    }
                    4 => {
                        m.extend(vi(2));
                        m.extend(b"ok");
                        m.extend(vi(2));
                        m.extend(vi(1));
                        m.extend(vi(2));
                        let cut = r.below(m.len() + 1);
                        m.truncate(cut);
                    }
                    _ => {
                        m = vi(big(&mut r));
                        m.extend(vi(big(&mut r)));
                    }
                }
                w.feed(r.below(2) == 0, ch_ev, &m);
            }
            desc = "600 structure-aware Ev{u32,String,Vec<u16>} messages (length inflation, truncation, invalid utf-8)".to_string();
            "event-struct"
        }
        4 => {
            for _ in 0..600 {
                let mut m = entity_bytes(&mut r, w);
                // MEv is serialized by serde: Entity as u64 bits varint, Option tag
                if r.below(2) == 0 {
                    m = vi(match r.below(6) {
                        0 => w.probe.to_bits(),
                        1 => u64::MAX,
                        2 => 0,
                        3 => 1 << 32,
                        4 => (1u64 << 63) | 5,
                        _ => r.next(),
                    });
                }
                match r.below(4) {
                    0 => m.push(0),
                    1 => m.extend([1, r.next() as u8]),
                    2 => m.push(2 + r.below(250) as u8),
                    _ => {}
                }
                w.feed(r.below(2) == 0, ch_mev, &m);
            }
            desc = "600 mapped-event messages (entity bits at the validity boundaries, bad Option tags)".to_string();
            "mapped-event"
        }
        5 => {
            // triggers (incl. the protocol hash trigger): target count and target entities
            for _ in 0..600 {
                let ch = if p == 1 && r.below(3) == 0 { 1 } else { ch_trig };
                let mut m = vec![];
                match r.below(6) {
                    0 => {
                        m.extend(vi(big(&mut r)));
                        { let n = r.below(6); m.extend(r.bytes(n)); }
                    }
                    1 => {
                        let n = 1 + r.below(4);
                        m.extend(vi(n as u64));
                        for _ in 0..n {
                            m.extend(entity_bytes(&mut r, w));
                        }
                        m.extend(vi(r.next()));
                    }
                    2 => {
                        m.extend(vi(1));
                        m.extend(entity_bytes(&mut r, w));
                    }
                    3 => {
                        m.extend(vi(0));
                        m.extend(vi(big(&mut r)));
                    }
                    4 => {
                        let n = 200 + r.below(300);
                        m.extend(vi(n as u64));
                        for _ in 0..n {
                            m.extend(vi(r.below(64) as u64 * 2));
                        }
                        m.extend(vi(7));
                    }
                    _ => {
                        m.extend(vi(big(&mut r)));
                    }
                }
                w.feed(r.below(2) == 0, ch, &m);
            }
            desc = "600 trigger messages (target counts up to u64::MAX, boundary entity encodings, 200..500 targets) on the trigger and protocol-hash channels".to_string();
            "trigger"
        }
        6 => {
            // random varint-heavy strings, single
            for _ in 0..1500 {
                let len = r.below(25);
                let m: Vec<u8> = (0..len).map(|_| hostile_byte(&mut r)).collect();
                let ch = if r.below(3) == 0 { nch - 1 } else { r.below(nch) };
                w.feed(r.below(2) == 0, ch, &m);
            }
            desc = "1500 random varint-heavy byte strings <= 24 bytes on random channels".to_string();
            "random"
        }
        _ => {
            // batches interleaved with legitimate traffic and lifecycle of other clients
            let mut extra: Vec<Entity> = vec![];
            for round in 0..120 {
                let n = 1 + r.below(6);
                let batch: Vec<(usize, Vec<u8>)> = (0..n)
                    .map(|_| {
                        let len = r.below(40);
                        let ch = if r.below(3) == 0 { nch - 1 } else { r.below(nch) };
                        (ch, (0..len).map(|_| hostile_byte(&mut r)).collect())
                    })
                    .collect();
                w.feed_batch(r.below(2) == 0, &batch);
                match r.below(7) {
                    6 => {
                        // a client connects, its (well-formed) handshake and some garbage arrive, and the
                        // connection is gone before the server gets to process any of it
                        let e = w.server.world_mut().spawn(ConnectedClient { max_size: 1200 }).id();
                        if let Some((ch, m)) = w.handshake.clone() {
                            w.inject(e, ch, m.to_vec());
                        }
                        let m: Vec<u8> = (0..r.below(12)).map(|_| hostile_byte(&mut r)).collect();
                        let ch = r.below(nch);
                        w.inject(e, ch, m);
                        w.server.world_mut().entity_mut(e).despawn();
                        w.feed(r.below(2) == 0, r.below(nch), &[]);
                    }
                    0 => {
                        let e = w.server.world_mut().spawn(ConnectedClient { max_size: 1200 }).id();
                        // hostile data from a client that connects and leaves at once
                        let m: Vec<u8> = (0..r.below(12)).map(|_| hostile_byte(&mut r)).collect();
                        let ch = r.below(nch);
                        w.inject(e, ch, m);
                        extra.push(e);
                    }
                    1 => {
                        if let Some(e) = extra.pop() {
                            w.server.world_mut().entity_mut(e).despawn();
                        }
                    }
                    2 => {
                        w.exchange_good();
                    }
                    _ => {}
                }
                if round % 40 == 39 {
                    w.check_service("a batch round");
                }
                if !w.errs.is_empty() {
                    break;
                }
            }
            for e in extra {
                w.server.world_mut().entity_mut(e).despawn();
            }
            desc = "120 batches of 1..6 random messages <= 39 bytes interleaved with legitimate traffic and connects/disconnects of other clients".to_string();
            "batched-interleaved"
        }
    };
    w.check_service(name);
    if matches!(kind, 2 | 6 | 7) {
        lonely_flood(w, &mut r);
    }
    (name, desc)
}

fn auth_for(seed: u64) -> AuthMethod {
    match (seed / 8) % 4 {
        0 | 1 => AuthMethod::ProtocolCheck,
        2 => AuthMethod::Custom,
        _ => AuthMethod::ProtocolCheck,
    }
}

fn main() {
    if let Some(n) = std::env::var("VERIF_ALLOC_TRACE").ok().and_then(|v| v.parse().ok()) {
        TRACE_AT.store(n, Relaxed);
    }
    let args = Args::from_env();
    quiet_panics();
    if !args.flag("--server-only") {
        // (not under Miri: a frame takes minutes there)
        start_watchdog();
    }
    let thorough = args.get("--tier") == Some("thorough");
    if let Some(seed) = args.get("--replay") {
        let seed: u64 = seed.parse().unwrap();
        let mut w = World6::new(auth_for(seed), true, args.flag("--server-only"), args.num("--max-inputs", u64::MAX));
        let (k, d) = run_seed(seed, thorough || args.flag("--thorough"), &mut w);
        println!("{k}: {d}");
        for e in &w.errs {
            println!("VIOLATION [C06]: {e}");
        }
        println!("{} inputs, {} server frames, largest single allocation request {}", w.inputs, w.frames, w.max_single_seen);
        return;
    }
    let from: u64 = args.num("--from", 0);
    let to: u64 = args.num("--to", 0);
    let out = args.get("--out").expect("--out").to_string();
    let replay_dir = args.get("--replay-dir").unwrap_or("/verif/replays").to_string();
    let progress = format!("{out}.progress");
    let server_only = args.flag("--server-only");
    let per_seed: u64 = args.num("--max-inputs", u64::MAX);
    let mut res = ShardResult::default();
    let mut world: Option<(AuthMethod, World6)> = None;
    for seed in from..to {
        // the driver reads this file if the process dies (abort on allocation failure etc.)
        let _ = std::fs::write(&progress, format!("{seed}"));
        let auth = auth_for(seed);
        if world.as_ref().is_none_or(|(a, w)| *a != auth || !w.errs.is_empty()) {
            world = Some((auth, World6::new(auth, false, server_only, u64::MAX)));
        }
        let max_inputs = 0; // placeholder, overwritten below
        let _ = max_inputs;
        let w = &mut world.as_mut().unwrap().1;
        w.max_inputs = w.inputs.saturating_add(per_seed);
        let before = (w.inputs, w.frames, w.convergence_checks, w.legit_checks, w.retention_checks, w.lonely_floods, w.malformed_trigger_checks);
        let (kind, desc) = run_seed(seed, thorough, w);
        res.runs += w.inputs - before.0;
        *res.configs.entry(format!("{kind}/{:?}", w.auth)).or_default() += 1;
        res.obs.add("hostile_messages", w.inputs - before.0);
        res.obs.add("server_frames", w.frames - before.1);
        res.obs.add("service_checks_with_wellbehaved_client", w.convergence_checks - before.2);
        res.obs.add("same_frame_legitimate_event_checks", w.legit_checks - before.3);
        res.obs.add("message_discarded_checks", w.retention_checks - before.4);
        res.obs.add("malformed_trigger_discarded_checks", w.malformed_trigger_checks - before.6);
        res.obs.add("floods_with_only_unauthorized_connections", w.lonely_floods - before.5);
        res.obs.max("max_single_allocation_request_bytes", w.max_single_seen as u64);
        if kind == "exhaustive-short" {
            res.obs.inc("exhaustive_blocks");
        }
        let h = fnv64(format!("{kind}{desc}{seed}").as_bytes());
        if res.nontrivial.insert(h) && res.samples.len() < 4 && (seed - from) % 3 == 0 {
            res.samples.push(json!({"seed": seed, "kind": kind, "inputs": desc}));
        }
        if !w.errs.is_empty() {
            let path = format!("{replay_dir}/C06-s{seed}.json");
            let tier_args: Vec<&str> = if thorough { vec!["--thorough"] } else { vec![] };
            write_json(&path, &json!({"engine": "c06", "seed": seed, "kind": kind, "inputs": desc, "replay_args": tier_args, "violations": w.errs}));
            for e in w.errs.iter().take(3) {
                res.violations.push(json!({"props": ["C06"], "seed": seed, "msg": e, "replay": path}));
            }
        }
    }
    let _ = std::fs::remove_file(&progress);
    let mut j = res.to_json();
    j["harness_errors"] = json!([]);
    j["rule"] = json!("evaluations = individual hostile messages, each followed by one server frame under catch_unwind with the counting allocator armed; cases come in blocks per seed: exhaustive (all byte strings of length 1..2 [quick] / 1..3 [thorough] with a fixed first byte, on one channel, from one sender; blocks enumerate channel x sender x first byte), acknowledgement lists, structure-aware event / mapped-event / trigger encodings with inflated lengths and boundary entity bits, random varint-heavy strings, batches interleaved with legitimate traffic and other clients connecting/leaving; every block ends with a service check through a well-behaved client; a well-behaved client's event and its trigger aimed at one entity are queued behind hostile messages of the same frame (the trigger must be observed once, for that entity only); a trigger message whose target list does not decode under the harness' reference decoder must not produce an observation; after every server frame each hostile message must have been released by the server (Bytes::is_unique on a retained clone); blocks of kind acks/random/batched additionally start a fresh server whose only connections are unauthorized, flood it for 20..80 frames (same monitors) and then let a well-behaved client join; distinct_nontrivial = distinct blocks");
    write_json(&out, &j);
}
