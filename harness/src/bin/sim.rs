//! Worker of the session simulator.
//!   sim --prop C03 --from A --to B --out shard.json [--kper K]     run seeds [A, B)
//!   sim --prop C03 --replay SEED [--fault-at K --fault-kind N]      verbose single run
use replicon_verif::{run::*, sim::Profile, util::*};
use serde_json::json;

fn case_of(prop: &str, seed: u64, kper: u64) -> Option<(u64, Option<Fault>)> {
    if prop != "C09" {
        return Some((seed, None));
    }
    // fault enumeration: seed -> (base scenario, fault point)
    let base = seed / kper;
    let j = seed % kper;
    let prof = Profile::for_case(prop, base);
    let n = steps_for(base, &prof) as u64 + 1;
    let at = if kper >= n {
        if j >= n {
            return None;
        }
        j
    } else {
        j * n / kper
    };
    let kind = (Rng::new(seed ^ 0xFA17).below(3) == 0) as u8;
    Some((base, Some(Fault { at: at as usize, kind })))
}

fn main() {
    let args = Args::from_env();
    let prop = args.get("--prop").expect("--prop").to_string();
    quiet_panics();
    if let Some(seed) = args.get("--replay") {
        let seed: u64 = seed.parse().unwrap();
        let fault = args.get("--fault-at").map(|k| Fault { at: k.parse().unwrap(), kind: args.num("--fault-kind", 0u8) });
        let o = run_one(&prop, seed, fault);
        println!("config: {}", o.cfg);
        for l in &o.log {
            println!("  {l}");
        }
        for e in &o.errs {
            println!("VIOLATION {:?}: {}", e.props, e.msg);
        }
        for k in &o.known {
            println!("KNOWN {k}");
        }
        if let Some(h) = &o.harness_error {
            println!("HARNESS ERROR: {h}");
        }
        println!("completed={} observations={}", o.completed, o.obs.to_json());
        return;
    }
    let from: u64 = args.num("--from", 0);
    let to: u64 = args.num("--to", 0);
    let kper: u64 = args.num("--kper", 25);
    let out = args.get("--out").expect("--out").to_string();
    let replay_dir = args.get("--replay-dir").unwrap_or("/verif/replays").to_string();
    let mut res = ShardResult::default();
    let mut harness_errors = vec![];
    let mut skipped = 0u64;
    for seed in from..to {
        let Some((base, fault)) = case_of(&prop, seed, kper) else {
            skipped += 1;
            continue;
        };
        let o = run_one(&prop, base, fault);
        res.runs += 1;
        *res.configs.entry(o.cfg.clone()).or_default() += 1;
        res.obs.merge(&o.obs);
        if let Some(h) = &o.harness_error {
            harness_errors.push(json!({"seed": seed, "error": h}));
            continue;
        }
        if !o.completed {
            res.aborted += 1;
        }
        if nontrivial(&prop, &o) {
            if res.nontrivial.insert(o.trace_hash) && res.samples.len() < 2 {
                res.samples.push(sample_json(&o, fault));
            }
        }
        for k in &o.known {
            res.known.push(json!({"seed": seed, "what": k}));
        }
        let mut wrote = None;
        for e in &o.errs {
            let path = wrote.get_or_insert_with(|| {
                let path = format!("{replay_dir}/{prop}-s{seed}.json");
                write_json(
                    &path,
                    &json!({
                        "engine": "sim",
                        "prop_profile": prop,
                        "seed": base,
                        "case": seed,
                        "fault": fault.map(|f| json!({"at": f.at, "kind": f.kind})),
                        "config": o.cfg,
                        "violations": o.errs.iter().map(|e| json!({"props": e.props, "msg": e.msg})).collect::<Vec<_>>(),
                        "trace": o.log,
                    }),
                );
                path
            });
            res.violations.push(json!({"props": e.props, "seed": seed, "msg": e.msg, "replay": path}));
        }
    }
    let mut j = res.to_json();
    j["harness_errors"] = json!(harness_errors);
    j["skipped"] = json!(skipped);
    j["rule"] = json!(rule_text(&prop));
    write_json(&out, &j);
}
