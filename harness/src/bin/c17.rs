//! C17: example transport over real loopback sockets - exactly once, per-channel order, payload intact.
use bevy::prelude::*;
use bevy_replicon::prelude::*;
use bevy_replicon_example_backend::{ExampleClient, ExampleServer, RepliconExampleBackendPlugins};
use replicon_verif::util::*;
use serde::{Deserialize, Serialize};
use serde_json::json;
use std::{
    panic::{AssertUnwindSafe, catch_unwind},
    time::Duration,
};

#[derive(Event, Serialize, Deserialize, Debug, Clone)]
struct S1(u32, Vec<u8>);
#[derive(Event, Serialize, Deserialize, Debug, Clone)]
struct S2(u32, Vec<u8>);
#[derive(Event, Serialize, Deserialize, Debug, Clone)]
struct C1(u32, Vec<u8>);
#[derive(Event, Serialize, Deserialize, Debug, Clone)]
struct C2(u32, Vec<u8>);
// more client channels than server channels
#[derive(Event, Serialize, Deserialize, Debug, Clone)]
struct C3(u32, Vec<u8>);
#[derive(Event, Serialize, Deserialize, Debug, Clone)]
struct C4(u32, Vec<u8>);

/// A second connection held by the server process itself; dropped from inside a server frame (after
/// the receive phase, before the send phase) while unread data sits in its socket, so that the
/// server's next write to it fails.
#[derive(Resource, Default)]
struct Victim {
    client: Option<ExampleClient>,
    drop_now: bool,
}

/// (kind, seq, payload ok)
#[derive(Resource, Default)]
struct Got(Vec<(u8, u32, bool)>);

fn payload(kind: u8, seq: u32) -> Vec<u8> {
    // message = seq varint (1..3 bytes) + length varint (1..2 bytes) + payload; class 4 puts the whole
    // message at 1191..1200 bytes, i.e. around the usual maximum message size of 1200
    let len = match seq % 9 {
        0 => 0,
        1 => 1,
        2 => 1100,
        3 => 127 + (seq % 3) as usize,
        4 => 1188 + (seq / 9 % 8) as usize,
        _ => (seq.wrapping_mul(2654435761) % 1100) as usize,
    };
    (0..len).map(|i| (seq as usize + i * 31 + kind as usize) as u8).collect()
}

fn mk() -> App {
    let mut app = App::new();
    app.add_plugins((
        MinimalPlugins,
        RepliconPlugins
            .set(RepliconSharedPlugin { auth_method: AuthMethod::None })
            .set(ServerPlugin { tick_policy: TickPolicy::EveryFrame, ..Default::default() }),
        RepliconExampleBackendPlugins,
    ))
    .init_resource::<Got>()
    .add_server_event::<S1>(Channel::Ordered)
    .make_event_independent::<S1>()
    .add_server_event::<S2>(Channel::Ordered)
    .make_event_independent::<S2>()
    .add_client_event::<C1>(Channel::Ordered)
    .add_client_event::<C2>(Channel::Ordered)
    .add_client_event::<C3>(Channel::Ordered)
    .add_client_event::<C4>(Channel::Ordered)
    .init_resource::<Victim>()
    .add_systems(Update, |mut v: ResMut<Victim>| {
        if v.drop_now {
            v.drop_now = false;
            v.client = None;
        }
    })
    .add_systems(
        Last,
        (
            |mut r: EventReader<S1>, mut g: ResMut<Got>| {
                for e in r.read() {
                    g.0.push((1, e.0, e.1 == payload(1, e.0)));
                }
            },
            |mut r: EventReader<S2>, mut g: ResMut<Got>| {
                for e in r.read() {
                    g.0.push((2, e.0, e.1 == payload(2, e.0)));
                }
            },
            |mut r: EventReader<FromClient<C1>>, mut g: ResMut<Got>| {
                for e in r.read() {
                    g.0.push((3, e.event.0, e.event.1 == payload(3, e.event.0)));
                }
            },
            |mut r: EventReader<FromClient<C2>>, mut g: ResMut<Got>| {
                for e in r.read() {
                    g.0.push((4, e.event.0, e.event.1 == payload(4, e.event.0)));
                }
            },
            |mut r: EventReader<FromClient<C3>>, mut g: ResMut<Got>| {
                for e in r.read() {
                    g.0.push((5, e.event.0, e.event.1 == payload(5, e.event.0)));
                }
            },
            |mut r: EventReader<FromClient<C4>>, mut g: ResMut<Got>| {
                for e in r.read() {
                    g.0.push((6, e.event.0, e.event.1 == payload(6, e.event.0)));
                }
            },
        ),
    );
    app.finish();
    app
}

const MARK: u32 = 1 << 30;
const NAMES: [&str; 7] = ["", "S1", "S2", "C1", "C2", "C3", "C4"];

struct Case {
    desc: Vec<String>,
    errs: Vec<String>,
    inconclusive: Option<String>,
    rounds: u32,
    messages: u64,
    max_burst: u64,
    victims: u64,
}

fn run_case(seed: u64) -> Case {
    let mut rng = Rng::new(seed);
    let mut case = Case { desc: vec![], errs: vec![], inconclusive: None, rounds: 0, messages: 0, max_burst: 0, victims: 0 };
    let r = catch_unwind(AssertUnwindSafe(|| {
        let mut server = mk();
        let mut client = mk();
        // (a machine that is churning through loopback sockets may be out of free ports for a moment)
        let mut es = ExampleServer::new(0);
        for _ in 0..200 {
            if es.is_ok() {
                break;
            }
            std::thread::sleep(Duration::from_millis(10));
            es = ExampleServer::new(0);
        }
        let es = match es {
            Ok(s) => s,
            Err(e) => {
                case.inconclusive = Some(format!("cannot open a loopback listener: {e}"));
                return;
            }
        };
        let port = es.local_addr().unwrap().port();
        server.insert_resource(es);
        server.update();
        match ExampleClient::new(port) {
            Ok(c) => client.insert_resource(c),
            Err(e) => {
                case.inconclusive = Some(format!("cannot connect over loopback: {e}"));
                return;
            }
        };
        let mut connected = false;
        for _ in 0..200 {
            client.update();
            server.update();
            let mut q = server.world_mut().query::<&ConnectedClient>();
            if q.iter(server.world()).count() == 1 && client.world().resource::<RepliconClient>().is_connected() {
                connected = true;
                break;
            }
            std::thread::sleep(Duration::from_millis(1));
        }
        if !connected {
            case.inconclusive = Some("loopback connection not established after 200 frames".into());
            return;
        }
        // sometimes a second connection, owned by the server process, that never reads
        let with_victim = rng.below(3) == 0;
        if with_victim {
            match ExampleClient::new(port) {
                Ok(v) => server.world_mut().resource_mut::<Victim>().client = Some(v),
                Err(e) => {
                    case.inconclusive = Some(format!("cannot open the second loopback connection: {e}"));
                    return;
                }
            }
            for _ in 0..200 {
                server.update();
                let mut q = server.world_mut().query::<&ConnectedClient>();
                if q.iter(server.world()).count() == 2 {
                    break;
                }
                std::thread::sleep(Duration::from_millis(1));
            }
        }
        let expected_clients = |victim_alive: bool| 1 + victim_alive as usize;
        let mut victim_alive = with_victim;
        let mut next = [0u32; 7];
        let rounds = 3 + rng.below(4);
        for round in 0..rounds {
            case.rounds += 1;
            // what is queued between two receiver frames, per kind
            let mut sent: [Vec<u32>; 7] = Default::default();
            let n: [usize; 7] = [0, 1 + rng.below(60), rng.below(40), 1 + rng.below(60), rng.below(30), rng.below(20), rng.below(20)];
            let sub = 1 + rng.below(3);
            // the second connection breaks inside the first server frame that sends this round's events
            let kill_victim = victim_alive && round >= 1 && rng.below(2) == 0;
            if kill_victim {
                server.world_mut().resource_mut::<Victim>().drop_now = true;
                victim_alive = false;
                case.victims += 1;
            }
            for part in 0..sub {
                // interleave kinds randomly inside a sender frame
                let mut todo: Vec<u8> = vec![];
                for k in 1..=6u8 {
                    let share = n[k as usize] / sub + if part == 0 { n[k as usize] % sub } else { 0 };
                    todo.extend(std::iter::repeat(k).take(share));
                }
                for i in (1..todo.len()).rev() {
                    todo.swap(i, rng.below(i + 1));
                }
                for k in todo {
                    let seq = next[k as usize];
                    next[k as usize] += 1;
                    sent[k as usize].push(seq);
                    let p = payload(k, seq);
                    match k {
                        1 => {
                            server.world_mut().send_event(ToClients { mode: SendMode::Broadcast, event: S1(seq, p) });
                        }
                        2 => {
                            server.world_mut().send_event(ToClients { mode: SendMode::Broadcast, event: S2(seq, p) });
                        }
                        3 => {
                            client.world_mut().send_event(C1(seq, p));
                        }
                        4 => {
                            client.world_mut().send_event(C2(seq, p));
                        }
                        5 => {
                            client.world_mut().send_event(C3(seq, p));
                        }
                        _ => {
                            client.world_mut().send_event(C4(seq, p));
                        }
                    }
                }
                // senders flush to the sockets; receivers do NOT run their receive systems in between
                // when `pile` is set: both apps are sender and receiver, so to let messages pile up
                // between two receiver frames we write several sender frames' worth before updating
                // the other side. An app's update does both, hence: update A (sends), update B (sends
                // and receives A's), ... the pile-up per receiver frame is what one update of the peer wrote.
                if part + 1 < sub && rng.below(2) == 0 {
                    server.update();
                    client.update();
                }
            }
            let burst: u64 = (1..=6).map(|k| sent[k].len() as u64).sum();
            case.messages += burst;
            case.max_burst = case.max_burst.max((sent[1].len() + sent[2].len()).max(sent[3].len() + sent[4].len() + sent[5].len() + sent[6].len()) as u64);
            case.desc.push(format!(
                "round {round}: S1 x{} S2 x{} C1 x{} C2 x{} C3 x{} C4 x{} in {sub} sender frame(s){}",
                sent[1].len(), sent[2].len(), sent[3].len(), sent[4].len(), sent[5].len(), sent[6].len(),
                if kill_victim { "; a second connection breaks inside the server's sending frame" } else { "" }
            ));
            // end-of-round markers: TCP is ordered, so a marker that arrives proves everything before it was readable
            server.world_mut().send_event(ToClients { mode: SendMode::Broadcast, event: S1(MARK + round as u32, vec![]) });
            server.world_mut().send_event(ToClients { mode: SendMode::Broadcast, event: S2(MARK + round as u32, vec![]) });
            client.world_mut().send_event(C1(MARK + round as u32, vec![]));
            client.world_mut().send_event(C2(MARK + round as u32, vec![]));
            client.world_mut().send_event(C3(MARK + round as u32, vec![]));
            client.world_mut().send_event(C4(MARK + round as u32, vec![]));
            server.update();
            client.update();
            let mut got: [Vec<(u32, bool)>; 7] = Default::default();
            let mut marks = [false; 7];
            let mut idle_frames = 0;
            let mut frames = 0;
            // Loopback TCP hands the bytes to the receiving socket during the sender's write, so a
            // receiver that sees nothing new for hundreds of its own frames is not waiting for the
            // kernel: the stream is stalled. Only a connection that went away makes the case inconclusive.
            while idle_frames < 300 && frames < 3000 {
                let mut progress = false;
                for (app, kinds) in [(&mut client, &[1u8, 2][..]), (&mut server, &[3u8, 4, 5, 6][..])] {
                    let g = std::mem::take(&mut app.world_mut().resource_mut::<Got>().0);
                    for (k, s, ok) in g {
                        if (k == 1 || k == 2) && kinds.contains(&3) {
                            // Broadcast includes the local server: its own re-emission, not transport traffic
                        } else if !kinds.contains(&k) {
                            case.errs.push(format!("round {round}: kind {k} seq {s} observed on the wrong side / channel"));
                        } else if s >= MARK {
                            marks[k as usize] = true;
                            progress = true;
                        } else {
                            got[k as usize].push((s, ok));
                            progress = true;
                        }
                    }
                }
                if marks[1..].iter().all(|m| *m) {
                    break;
                }
                idle_frames = if progress { 0 } else { idle_frames + 1 };
                frames += 1;
                std::thread::sleep(Duration::from_millis(1));
                client.update();
                server.update();
            }
            if !marks[1..].iter().all(|m| *m) {
                let up = client.world().resource::<RepliconClient>().is_connected() && {
                    let mut q = server.world_mut().query::<&ConnectedClient>();
                    q.iter(server.world()).count() == expected_clients(victim_alive)
                };
                let missing: Vec<String> = (1..=6usize)
                    .filter(|k| !marks[*k])
                    .map(|k| format!("{}: {} of {} arrived", NAMES[k], got[k].len(), sent[k].len()))
                    .collect();
                if up {
                    case.errs.push(format!("round {round}: delivery stalled although the connection is up - no message arrived during {idle_frames} receiver frames ({})", missing.join(", ")));
                } else {
                    case.errs.push(format!("round {round}: the transport dropped the connection while delivering ordinary messages ({})", missing.join(", ")));
                }
                return;
            }
            for k in 1..=6usize {
                let seqs: Vec<u32> = got[k].iter().map(|(s, _)| *s).collect();
                if seqs != sent[k] {
                    let mut sorted = seqs.clone();
                    sorted.sort();
                    let what = if sorted == sent[k] {
                        let first = seqs.iter().zip(&sent[k]).position(|(a, b)| a != b).unwrap_or(0);
                        format!("arrived permuted (first deviation at position {first}: got seq {}, expected {})", seqs[first], sent[k][first])
                    } else if seqs.len() > sent[k].len() {
                        "duplicates".to_string()
                    } else {
                        format!("{} of {} arrived although the later marker did", seqs.len(), sent[k].len())
                    };
                    case.errs.push(format!("round {round} kind {}: {} messages queued between two receiver frames {what}", NAMES[k], sent[k].len()));
                }
                if got[k].iter().any(|(_, ok)| !ok) {
                    case.errs.push(format!("round {round} kind {k}: payload corrupted"));
                }
            }
            if !case.errs.is_empty() {
                return;
            }
        }
    }));
    if r.is_err() {
        case.errs.push(format!("panic: {}", take_panic().unwrap_or_default().lines().next().unwrap_or("")));
    }
    case
}

fn main() {
    let args = Args::from_env();
    quiet_panics();
    if let Some(seed) = args.get("--replay") {
        let c = run_case(seed.parse().unwrap());
        for d in &c.desc {
            println!("  {d}");
        }
        for e in &c.errs {
            println!("VIOLATION [C17]: {e}");
        }
        if let Some(i) = &c.inconclusive {
            println!("INCONCLUSIVE: {i}");
        }
        return;
    }
    let from: u64 = args.num("--from", 0);
    let to: u64 = args.num("--to", 0);
    let out = args.get("--out").expect("--out").to_string();
    let replay_dir = args.get("--replay-dir").unwrap_or("/verif/replays").to_string();
    let mut res = ShardResult::default();
    let mut inconclusive = 0u64;
    let mut first_inconclusive = None;
    for seed in from..to {
        let c = run_case(seed);
        res.runs += 1;
        res.obs.add("rounds", c.rounds as u64);
        res.obs.add("messages_sent", c.messages);
        res.obs.max("max_messages_piled_up_for_one_receiver_frame", c.max_burst);
        res.obs.add("second_connections_broken_inside_a_sending_frame", c.victims);
        if let Some(i) = c.inconclusive {
            inconclusive += 1;
            first_inconclusive.get_or_insert(i);
            continue;
        }
        if c.max_burst >= 12 {
            let h = fnv64(c.desc.join(";").as_bytes());
            if res.nontrivial.insert(h) && res.samples.len() < 2 {
                res.samples.push(json!({"seed": seed, "rounds": c.desc}));
            }
        }
        if !c.errs.is_empty() {
            let path = format!("{replay_dir}/C17-s{seed}.json");
            write_json(&path, &json!({"engine": "c17", "seed": seed, "rounds": c.desc, "violations": c.errs}));
            for e in c.errs.iter().take(3) {
                res.violations.push(json!({"props": ["C17"], "seed": seed, "msg": e, "replay": path}));
            }
        }
    }
    res.obs.add("inconclusive_cases", inconclusive);
    let mut j = res.to_json();
    // a minority of overloaded rounds is tolerated and reported; a majority makes the shard inconclusive
    j["harness_errors"] = if inconclusive * 2 > res.runs.max(1) { json!([format!("{inconclusive} of {} cases inconclusive: {}", res.runs, first_inconclusive.unwrap_or_default())]) } else { json!([]) };
    j["rule"] = json!("one case = one fresh server App + client App connected through the example backend over a real loopback TCP socket (no link conditioner), 3..6 rounds; per round 1..60 / 0..39 independent ordered server events on two channels and 1..60 / 0..29 / 0..19 / 0..19 client events on four channels (more client than server channels); in a third of the cases a second connection, held by the server process and never read, is dropped from inside a server frame between its receive and send phases so that the server's write to it fails while the first client's messages are queued behind it; (payload lengths 0..1100 derived from the sequence number) are queued in 1..3 sender frames in random interleaving, then end-of-round markers; the receiver's per-channel sequence must equal the sent sequence and every payload must be intact; a case whose markers do not arrive in 400 frames is inconclusive (not a violation); non-trivial = >=12 messages piled up for one receiver frame; distinct = distinct round description");
    write_json(&out, &j);
}
