//! Re-implementation of the documented wire formats (trusted base of the wire oracles).
use bevy::prelude::Entity;

/// Reads a postcard varint. Returns (value, bytes consumed) or None if truncated / over-long.
pub fn varint(b: &[u8]) -> Option<(u64, usize)> {
    let mut v = 0u64;
    for i in 0..10 {
        let x = *b.get(i)?;
        v |= ((x & 0x7f) as u64) << (7 * i);
        if x & 0x80 == 0 {
            return Some((v, i + 1));
        }
    }
    None
}

pub fn write_varint(mut v: u64, out: &mut Vec<u8>) {
    loop {
        let b = (v & 0x7f) as u8;
        v >>= 7;
        if v == 0 {
            out.push(b);
            break;
        }
        out.push(b | 0x80);
    }
}

/// Entity encoding: `(index << 1 | has_generation)` varint, then `generation - 1` varint if flagged.
pub fn entity(b: &[u8]) -> Option<(Entity, usize)> {
    let (fi, n) = varint(b)?;
    let mut off = n;
    let generation = if fi & 1 == 1 {
        let (g, n) = varint(&b[off..])?;
        off += n;
        (g as u32).checked_add(1)?
    } else {
        1
    };
    let bits = ((generation as u64) << 32) | (fi >> 1);
    Entity::try_from_bits(bits).ok().map(|e| (e, off))
}

pub fn write_entity(e: Entity, out: &mut Vec<u8>) {
    let generation = e.generation();
    let flag = (generation > 1) as u64;
    write_varint(((e.index() as u64) << 1) | flag, out);
    if flag == 1 {
        write_varint((generation - 1) as u64, out);
    }
}

thread_local! {
    /// Tick the simulated server started from. The simulator's bookkeeping uses ticks relative to it
    /// (so that its own arithmetic is plain integer arithmetic wherever the run sits in the 32-bit
    /// tick range, including across the wrap point); raw values are kept where the library's view
    /// of a tick matters.
    static ORIGIN: std::cell::Cell<u32> = const { std::cell::Cell::new(0) };
}

pub fn set_origin(o: u32) {
    ORIGIN.with(|c| c.set(o));
}

/// Raw wire/library tick -> tick relative to the run's origin. Raw 0 is the library's "no tick yet"
/// value (the simulator never lets the server use tick 0 in a run that wraps) and stays 0.
pub fn rel(raw: u32) -> u32 {
    if raw == 0 { 0 } else { raw.wrapping_sub(ORIGIN.with(|c| c.get())) }
}

/// Inverse of [`rel`] for real ticks.
pub fn raw(rel: u32) -> u32 {
    rel.wrapping_add(ORIGIN.with(|c| c.get()))
}

#[derive(Debug, Clone)]
pub struct MutateMsg {
    /// relative to the run's origin, see [`rel`]
    pub update_tick: u32,
    pub tick: u32,
    pub raw_update_tick: u32,
    pub raw_tick: u32,
    pub count: Option<u64>,
    pub index: u16,
    /// Bytes before the first entity record.
    pub header_len: usize,
    /// (entity, size of the whole record: entity + size prefix + data)
    pub entities: Vec<(Entity, usize)>,
    pub trailing: bool,
}

/// Decodes a mutate message: `update_tick | tick | [count] | index(u16 le) | (entity | size | data)*`.
pub fn mutate_msg(b: &[u8], track: bool) -> Option<MutateMsg> {
    let (ut, n1) = varint(b)?;
    let (t, n2) = varint(&b[n1..])?;
    let mut off = n1 + n2;
    let mut count = None;
    if track {
        let (c, n3) = varint(&b[off..])?;
        count = Some(c);
        off += n3;
    }
    if b.len() < off + 2 {
        return None;
    }
    let index = u16::from_le_bytes([b[off], b[off + 1]]);
    off += 2;
    let header_len = off;
    let mut entities = vec![];
    let mut trailing = false;
    while off < b.len() {
        let start = off;
        let Some((e, n)) = entity(&b[off..]) else {
            trailing = true;
            break;
        };
        off += n;
        let Some((sz, n)) = varint(&b[off..]) else {
            trailing = true;
            break;
        };
        off += n + sz as usize;
        if off > b.len() {
            trailing = true;
            break;
        }
        entities.push((e, off - start));
    }
    Some(MutateMsg { update_tick: rel(ut as u32), tick: rel(t as u32), raw_update_tick: ut as u32, raw_tick: t as u32, count, index, header_len, entities, trailing })
}

pub const FLAG_MAPPINGS: u8 = 1;
pub const FLAG_DESPAWNS: u8 = 2;
pub const FLAG_REMOVALS: u8 = 4;
pub const FLAG_CHANGES: u8 = 8;

/// Header of an update message: `flags(u8) | tick` (tick relative to the run's origin).
pub fn update_header(b: &[u8]) -> Option<(u8, u32, usize)> {
    let flags = *b.first()?;
    let (t, n) = varint(&b[1..])?;
    Some((flags, rel(t as u32), 1 + n))
}

pub fn update_header_raw_tick(b: &[u8]) -> Option<u32> {
    varint(b.get(1..)?).map(|(t, _)| t as u32)
}

/// Acknowledgement message: sequence of u16 le mutate indices.
pub fn acks(b: &[u8]) -> Vec<u16> {
    b.chunks_exact(2).map(|p| u16::from_le_bytes([p[0], p[1]])).collect()
}

/// Dependent server event: `tick | payload`. Returns (tick, offset of payload).
pub fn event_stamp(b: &[u8]) -> Option<(u32, usize)> {
    let (t, n) = varint(b)?;
    Some((rel(t as u32), n))
}

pub fn event_stamp_raw(b: &[u8]) -> Option<u32> {
    varint(b).map(|(t, _)| t as u32)
}

pub fn find_sub(hay: &[u8], needle: &[u8]) -> bool {
    !needle.is_empty() && hay.windows(needle.len()).any(|w| w == needle)
}
