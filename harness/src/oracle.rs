//! Oracles of the session simulator. Every function here only *reads* the apps (through public
//! API) and the harness' own records, and reports through `Sim::viol`.
use crate::{comps::*, sim::*, wire};
use bevy::prelude::*;
use bevy_replicon::{
    client::{ServerUpdateTick, confirm_history::ConfirmHistory, server_mutate_ticks::ServerMutateTicks},
    prelude::*,
    shared::server_entity_map::ServerEntityMap,
};
use bytes::Bytes;
use std::collections::{BTreeMap, BTreeSet};

fn find(p: &mut BTreeMap<Entity, Entity>, x: Entity) -> Entity {
    let mut r = x;
    while let Some(&n) = p.get(&r) {
        if n == r {
            break;
        }
        r = n;
    }
    r
}

fn union(p: &mut BTreeMap<Entity, Entity>, a: Entity, b: Entity) {
    let ra = find(p, a);
    let rb = find(p, b);
    if ra != rb {
        p.insert(ra, rb);
    }
}

impl Sim {
    // --------------------------------------------------------------------------------------------
    // C08: visibility query
    // --------------------------------------------------------------------------------------------

    pub fn check_is_visible(&mut self, when: &str) {
        if self.cfg.vis == Vis::All {
            return;
        }
        let alive = self.alive();
        for ci in 0..self.clients.len() {
            let Some(ce) = self.clients[ci].ent else { continue };
            if !self.clients[ci].authorized {
                continue;
            }
            let Some(v) = self.server.world().get::<ClientVisibility>(ce) else { continue };
            let mut bad = vec![];
            for &e in &alive {
                let got = v.is_visible(e);
                let want = self.expected_visible(ci, e);
                if got != want {
                    bad.push((e, got, want));
                }
            }
            self.obs.add("is_visible_checks", alive.len() as u64);
            for (e, got, want) in bad {
                self.viol(
                    &["C08"],
                    format!("client{ci}: is_visible({e}) = {got} after {when}, most recent setting says {want}"),
                );
            }
        }
    }

    // --------------------------------------------------------------------------------------------
    // per-message monitors on everything the server sends (C04 stamps, C07, C08, C12 counts)
    // --------------------------------------------------------------------------------------------

    fn s_kind_of_channel(&self, ch: usize) -> Option<&'static str> {
        if !self.cfg.events || ch < self.s_base {
            return None;
        }
        S_KINDS.get(ch - self.s_base).copied()
    }

    fn c_kind_of_channel(&self, ch: usize) -> Option<&'static str> {
        if !self.cfg.events || ch < self.c_base {
            return None;
        }
        C_KINDS.get(ch - self.c_base).copied()
    }

    /// Extracts the harness sequence number from an event payload.
    fn seq_of_payload(kind: &str, p: &[u8]) -> Option<u32> {
        match kind {
            "STrig" | "SIndTrig" | "SEvTrig" | "CTrig" => {
                let (n, mut off) = wire::varint(p)?;
                for _ in 0..n {
                    let (_, k) = wire::entity(&p[off..])?;
                    off += k;
                }
                wire::varint(&p[off..]).map(|(s, _)| s as u32)
            }
            _ => wire::varint(p).map(|(s, _)| s as u32),
        }
    }

    pub fn monitor_outgoing(&mut self, ci: usize, ch: usize, m: &Bytes) {
        let authorized = self.clients[ci].authorized;
        let kind = self.s_kind_of_channel(ch);
        // C07
        if !authorized {
            if ch < 2 {
                self.viol(&["C07"], format!("replication message on channel {ch} sent to unauthorized client{ci}"));
            } else if let Some(k) = kind {
                if !s_kind_independent(k) {
                    self.viol(&["C07"], format!("dependent event {k} sent to unauthorized client{ci}"));
                }
            }
            self.obs.inc("msgs_to_unauthorized");
        }
        match ch {
            0 => {
                if let Some((flags, t, _)) = wire::update_header(m) {
                    self.clients[ci].last_upd_tick_sent = t;
                    if flags & wire::FLAG_MAPPINGS != 0 {
                        self.obs.inc("update_msgs_with_mappings");
                    }
                    if flags & wire::FLAG_DESPAWNS != 0 {
                        self.obs.inc("update_msgs_with_despawns");
                    }
                    if flags & wire::FLAG_REMOVALS != 0 {
                        self.obs.inc("update_msgs_with_removals");
                    }
                }
            }
            1 => {
                if let Some(mm) = wire::mutate_msg(m, self.cfg.track) {
                    *self.clients[ci].sent_per_tick.entry(mm.tick).or_default() += 1;
                }
            }
            _ => {
                if let Some(k) = kind {
                    if !s_kind_independent(k) {
                        // dependent events are buffered and leave only behind the replication of a tick
                        // (the changes made since the previous tick travel first); the app's very first frame
                        // replicates whatever its tick is
                        if !self.last_frame_ticked && self.frame_no > 1 {
                            let f = self.frame_no;
                            self.viol(&["C04"], format!("dependent event {k} for client{ci} left the server in frame {f}, which did not replicate a tick: it overtakes the replication of whatever changed since the last tick"));
                        }
                        self.obs.inc("dependent_events_checked_to_leave_with_a_tick");
                        match wire::event_stamp(m) {
                            Some((stamp, off)) => {
                                let want = self.clients[ci].last_upd_tick_sent;
                                self.obs.inc("event_stamps_checked");
                                if stamp != want {
                                    self.viol(
                                        &["C04"],
                                        format!("event {k} for client{ci} stamped with tick {stamp}, but the last update message sent to it has tick {want}"),
                                    );
                                }
                                if let Some(seq) = Self::seq_of_payload(k, &m[off..]) {
                                    self.clients[ci].stamps.insert((k, seq), stamp);
                                }
                            }
                            None => self.viol(&["C04"], format!("event {k} for client{ci} carries no tick stamp")),
                        }
                    }
                }
            }
        }
        // C08: raw scan for secrets of entities hidden from the addressee
        if self.cfg.vis != Vis::All {
            let mut leaked = vec![];
            let mut scanned = 0u64;
            for (e, secs) in &self.secrets {
                let hidden = if self.server.world().get_entity(*e).is_ok() {
                    !self.expected_visible(ci, *e)
                } else {
                    self.dead_hidden.contains(&(ci, *e))
                };
                if !hidden {
                    continue;
                }
                for s in secs {
                    scanned += 1;
                    if wire::find_sub(m, s) {
                        leaked.push((*e, *s));
                    }
                }
            }
            self.obs.add("secret_scans", scanned);
            for (e, s) in leaked {
                self.viol(
                    &["C08"],
                    format!("message on channel {ch} for client{ci} contains secret {s:02x?} of {e}, which is hidden from it"),
                );
            }
        }
    }

    // --------------------------------------------------------------------------------------------
    // C10 / C11: wire decode of one server frame's mutate traffic
    // --------------------------------------------------------------------------------------------

    pub fn wire_check(&mut self, msgs: &[(Entity, usize, Bytes)]) {
        // harness' own relation model, read from the server world
        // fine: edges between two marked entities (what the property promises to keep together)
        // coarse: edges from a marked source to any target (what the library may keep together)
        let mut fine: BTreeMap<Entity, Entity> = BTreeMap::new();
        let mut coarse: BTreeMap<Entity, Entity> = BTreeMap::new();
        if self.cfg.rel {
            for &e in &self.ents {
                let Ok(w) = self.server.world().get_entity(e) else { continue };
                if !w.contains::<Replicated>() {
                    continue;
                }
                let mut targets = vec![];
                if let Some(c) = w.get::<ChildOf>() {
                    targets.push(c.parent());
                }
                if let Some(f) = w.get::<Follows>() {
                    targets.push(f.0);
                }
                for t in targets {
                    union(&mut coarse, e, t);
                    if self.server.world().get_entity(t).is_ok_and(|w| w.contains::<Replicated>()) {
                        union(&mut fine, e, t);
                    }
                }
            }
        }
        let track = self.cfg.track;
        for ci in 0..self.clients.len() {
            let Some(ce) = self.clients[ci].ent else { continue };
            let mine: Vec<&Bytes> = msgs.iter().filter(|(e, ch, _)| *e == ce && *ch == 1).map(|(_, _, m)| m).collect();
            let decoded: Vec<Option<wire::MutateMsg>> = mine.iter().map(|m| wire::mutate_msg(m, track)).collect();

            // N1: unacknowledged mutations must be present in every tick's traffic
            if self.clients[ci].authorized && self.ticked_this_frame {
                let upd_sent = msgs.iter().any(|(e, ch, _)| *e == ce && *ch == 0);
                let mut present: BTreeSet<Entity> = BTreeSet::new();
                for d in decoded.iter().flatten() {
                    present.extend(d.entities.iter().map(|(e, _)| *e));
                }
                let lm: Vec<(Entity, usize)> = self.last_mut_frame.iter().map(|(e, f)| (*e, *f)).collect();
                for (e, lmf) in lm {
                    let alive = self.server.world().get_entity(e).is_ok_and(|w| {
                        w.contains::<Replicated>()
                            && (w.contains::<Va>() || w.contains::<Vb>() || w.contains::<Sec>() || w.contains::<Blob>() || w.contains::<Imm>())
                    });
                    if !alive || !self.expected_visible(ci, e) {
                        continue;
                    }
                    let ls = self.last_struct_frame.get(&e).copied().unwrap_or(0);
                    // structural change in the same tick window or later: travels reliably in an update message
                    let window_start = self.tick_frame.values().copied().filter(|f| *f <= lmf).max().unwrap_or(0);
                    if ls >= window_start {
                        continue;
                    }
                    // the client must already know the entity from an earlier tick
                    let known_before = self.clients[ci]
                        .x
                        .iter()
                        .any(|(t, snap)| self.tick_frame.get(t).is_some_and(|f| *f <= lmf) && snap.contains_key(&e));
                    if !known_before {
                        continue;
                    }
                    let acked_after = self.clients[ci].acked_frame.get(&e).is_some_and(|af| *af > lmf);
                    // any acknowledgement at all (even outside the timeout window) may have been processed
                    let maybe_acked = self.clients[ci].maybe_acked.get(&e).is_some_and(|af| *af > lmf);
                    if acked_after || maybe_acked {
                        continue;
                    }
                    self.obs.inc("n1_checks");
                    if !present.contains(&e) && !upd_sent {
                        let f = self.frame_no;
                        self.viol(
                            &["C11"],
                            format!("client{ci} N1: {e} mutated in frame {lmf}, never acknowledged, but absent from the tick traffic of frame {f}"),
                        );
                    }
                }
            }
            if mine.is_empty() {
                continue;
            }
            self.obs.inc("wire_tick_checks");
            let max = self.clients[ci].max_size;
            let mut where_is: BTreeMap<Entity, usize> = BTreeMap::new();
            let mut rec_size: BTreeMap<Entity, usize> = BTreeMap::new();
            let mut header = 0;
            for (mi, d) in decoded.iter().enumerate() {
                let Some(d) = d else {
                    self.viol(&["C10"], format!("client{ci} wire: undecodable mutate message"));
                    continue;
                };
                let mut hdr = d.header_len;
                if track {
                    // the library reserves the worst case for the count while packing
                    hdr += 10 - (wire_varint_len(d.count.unwrap_or(0)));
                    if d.count != Some(mine.len() as u64) {
                        self.viol(
                            &["C10", "C12"],
                            format!("client{ci} wire: message count field {:?} but {} messages were sent for tick {}", d.count, mine.len(), d.tick),
                        );
                    }
                }
                header = header.max(hdr);
                if d.trailing {
                    self.viol(&["C10"], format!("client{ci} wire: malformed entity records in mutate message"));
                }
                if d.entities.is_empty() && !track {
                    // O6: not a violation of any listed property while other traffic flows (observed when a
                    // message is an exact multiple of the maximum size and only empty relation groups
                    // follow); silence at rest is checked by `idle_check`.
                    self.obs.inc("o6_empty_mutate_messages_during_activity");
                }
                for (ent, sz) in &d.entities {
                    if where_is.insert(*ent, mi).is_some() {
                        self.viol(&["C10"], format!("client{ci} wire: {ent} appears in two mutate messages of tick {}", d.tick));
                    }
                    rec_size.insert(*ent, *sz);
                }
                // N2: acknowledged and unchanged entities must not be resent
                for (e, _) in &d.entities {
                    if let Some(&af) = self.clients[ci].acked_frame.get(e) {
                        let lm = self
                            .last_mut_frame
                            .get(e)
                            .copied()
                            .unwrap_or(0)
                            .max(self.last_any_change_frame.get(e).copied().unwrap_or(0));
                        let ls = self.last_struct_frame.get(e).copied().unwrap_or(0);
                        self.obs.inc("n2_checks");
                        // the message built in frame `af` already contained everything changed before that frame
                        if lm < af && ls < af {
                            let t = d.tick;
                            self.viol(
                                &["C11"],
                                format!("client{ci} N2: {e} resent at tick {t} although the message of frame {af} was acknowledged and nothing changed since (last mutation {lm}, structural {ls})"),
                            );
                        }
                    }
                }
                if d.raw_tick % PERIOD != 0 {
                    for (e, _) in &d.entities {
                        self.clients[ci].offperiod.entry(*e).or_default().push(self.frame_no);
                    }
                }
                let ents: Vec<Entity> = d.entities.iter().map(|(e, _)| *e).collect();
                self.clients[ci].used_idx.insert(d.index);
                self.clients[ci].inflight.entry(d.index).or_default().push((d.tick, self.frame_no, ents, false));
            }
            if mine.len() > 1 {
                self.obs.inc("ticks_with_split_mutations");
            }
            // groups
            let mut groups_fine: BTreeMap<Entity, Vec<Entity>> = BTreeMap::new();
            let mut groups_coarse: BTreeMap<Entity, Vec<Entity>> = BTreeMap::new();
            for &e in where_is.keys() {
                groups_fine.entry(find(&mut fine, e)).or_default().push(e);
                groups_coarse.entry(find(&mut coarse, e)).or_default().push(e);
            }
            for g in groups_fine.values() {
                if g.len() > 1 {
                    self.obs.inc("related_groups_seen");
                }
                let first = where_is[&g[0]];
                if g.iter().any(|e| where_is[e] != first) {
                    self.viol(&["C10"], format!("client{ci} wire: related entities {g:?} split across mutate messages"));
                }
            }
            let mut all_fit = true;
            let mut total = 0;
            for g in groups_coarse.values() {
                let sz: usize = g.iter().map(|e| rec_size[e]).sum();
                total += sz;
                if header + sz > max {
                    all_fit = false;
                }
                if (header + sz).abs_diff(max) <= 1 {
                    self.obs.inc("group_size_at_boundary");
                }
            }
            if (header + total).abs_diff(max) <= 1 {
                self.obs.inc("total_size_at_boundary");
            }
            if all_fit {
                for m in &mine {
                    if m.len() > max {
                        self.viol(
                            &["C10"],
                            format!("client{ci} wire: mutate message of {} bytes exceeds max {max} although every entity/group fits", m.len()),
                        );
                    }
                }
            }
            if header + total <= max && mine.len() != 1 {
                self.viol(
                    &["C10"],
                    format!("client{ci} wire: {} mutate messages although everything fits into one ({} <= {max})", mine.len(), header + total),
                );
            }
        }
    }

    // --------------------------------------------------------------------------------------------
    // after every client frame: C02, C03, C12 (end to end), C16
    // --------------------------------------------------------------------------------------------

    pub fn client_holds(cw: &EntityRef) -> bool {
        cw.contains::<Replicated>() || cw.contains::<ConfirmHistory>() || has_any_kind(cw)
    }

    pub fn check_client(&mut self, ci: usize) {
        if self.clients[ci].ent.is_none() {
            return;
        }
        self.obs.inc("client_frame_checks");
        let mut errs: Vec<(Vec<&'static str>, String)> = vec![];
        let ever_explicit = &self.ever_explicit;
        let explicit = |e: &Entity| ever_explicit.contains(&(ci, *e));
        let c = &mut self.clients[ci];
        let u_raw = c.app.world().resource::<ServerUpdateTick>().get();
        let u = wire::rel(u_raw);
        if u < c.last_update_tick {
            errs.push((vec!["C03"], format!("client{ci}: update tick went back {} -> {u}", c.last_update_tick)));
        }
        if u != c.last_update_tick {
            self.obs.inc("update_tick_advances");
        }
        c.last_update_tick = u;
        c.last_update_raw = u_raw;
        let map = c.app.world().resource::<ServerEntityMap>();
        let to_client: BTreeMap<Entity, Entity> = map.to_client().iter().map(|(a, b)| (*a, *b)).collect();
        let to_server: BTreeMap<Entity, Entity> = map.to_server().iter().map(|(a, b)| (*a, *b)).collect();

        // C16
        let server = &self.server;
        let unmarked_once = &self.unmarked_once;
        c.pre.retain(|(se, _, _)| {
            server.world().get_entity(*se).is_ok_and(|w| w.contains::<Replicated>()) && !unmarked_once.contains(se)
        });
        for (se, pre, killed) in &c.pre {
            // judged once the update message that carries the mapping has been applied (before that the
            // client may hold a placeholder for a referenced entity)
            if c.map_tick.get(se).is_none_or(|mt| u < *mt) {
                continue;
            }
            if let Some(got) = to_client.get(se) {
                self.obs.inc("prespawn_checks");
                if !*killed && got != pre {
                    errs.push((vec!["C16"], format!("client{ci}: {se} mapped to {got} instead of the pre-spawned {pre}")));
                }
                if *killed && got == pre {
                    errs.push((vec!["C16"], format!("client{ci}: {se} mapped to the despawned pre-spawned entity {pre}")));
                }
            }
        }

        // C03
        let empty = BTreeMap::new();
        let expected = if u == 0 { Some(&empty) } else { c.x.get(&u) };
        match expected {
            None => errs.push((vec!["C03"], format!("client{ci}: update tick {u} is not a tick the server replicated to it"))),
            Some(x) => {
                let mut placeholders = 0;
                let mut early_mapped = 0;
                let have: BTreeSet<Entity> = to_client
                    .iter()
                    .filter(|(s, ce)| match c.app.world().get_entity(**ce) {
                        Ok(w) => {
                            let h = Self::client_holds(&w);
                            if !h {
                                placeholders += 1;
                            }
                            // a pre-spawned entity whose mapping arrived before the server entity became
                            // visible carries the marker only; it is not yet "held" replicated state
                            if h && !x.contains_key(*s)
                                && !w.contains::<ConfirmHistory>()
                                && !has_any_kind(&w)
                                && c.pre_ever.contains(&(**s, **ce))
                            {
                                early_mapped += 1;
                                return false;
                            }
                            h
                        }
                        Err(_) => true,
                    })
                    .map(|(s, _)| *s)
                    .collect();
                self.obs.add("early_mapped_prespawns_seen", early_mapped);
                self.obs.add("bare_placeholders_seen", placeholders);
                let want: BTreeSet<Entity> = x.keys().copied().collect();
                self.obs.add("c03_entities_compared", want.len() as u64);
                if have != want {
                    let missing: Vec<_> = want.difference(&have).copied().collect();
                    let extra: Vec<_> = have.difference(&want).copied().collect();
                    let mut props = vec!["C03"];
                    if missing.iter().chain(extra.iter()).any(explicit) {
                        props.push("C08");
                    }
                    if missing.iter().chain(extra.iter()).any(|e| c.pre.iter().any(|(se, _, _)| se == e)) {
                        props.push("C16");
                    }
                    if !missing.is_empty() && c.joined_late {
                        // "from the tick it becomes authorized it is sent the complete state visible to it"
                        props.push("C07");
                    }
                    errs.push((props, format!("client{ci} structure at update tick {u}: missing {missing:?} extra {extra:?}")));
                }
                for (s, kinds) in x {
                    let Some(&ce) = to_client.get(s) else { continue };
                    let Ok(cw) = c.app.world().get_entity(ce) else {
                        errs.push((vec!["C03"], format!("client{ci} at update tick {u}: {s} mapped to dead {ce}")));
                        continue;
                    };
                    let mut got = [false; NK];
                    for k in 0..NK {
                        got[k] = has_kind(&cw, k);
                    }
                    if &got != kinds {
                        let mut props = vec!["C03"];
                        if c.joined_late && (0..NK).any(|k| kinds[k] && !got[k]) {
                            props.push("C07");
                        }
                        errs.push((
                            props,
                            format!("client{ci} at update tick {u}: {s} has components {} expected {}", kinds_str(&got), kinds_str(kinds)),
                        ));
                    }
                    if !cw.contains::<Replicated>() {
                        errs.push((vec!["C03"], format!("client{ci} at update tick {u}: {s} lacks the replication marker")));
                    }
                }
                // count of marked entities (catches duplicates that are not in the map)
                let mut q = c.app.world_mut().query_filtered::<Entity, With<Replicated>>();
                let marked: Vec<Entity> = q.iter(c.app.world()).collect();
                let unmapped: Vec<Entity> = marked.iter().copied().filter(|e| !to_server.contains_key(e)).collect();
                if !unmapped.is_empty() {
                    errs.push((
                        vec!["C03", "C16"],
                        format!("client{ci} at update tick {u}: marked entities {unmapped:?} are not in the entity map"),
                    ));
                }
            }
        }
        for (s, ce) in &to_client {
            if to_server.get(ce) != Some(s) {
                errs.push((vec!["C03"], format!("client{ci}: entity map not bijective at {s}->{ce}")));
            }
        }
        if to_client.len() != to_server.len() {
            errs.push((vec!["C03"], format!("client{ci}: entity map directions differ in size")));
        }

        // C02
        let mut new_hist = BTreeMap::new();
        for (s, ce) in &to_client {
            let Ok(cw) = c.app.world().get_entity(*ce) else { continue };
            let Some(h) = cw.get::<ConfirmHistory>() else { continue };
            let ht = wire::rel(h.last_tick().get());
            new_hist.insert(*s, ht);
            if let Some(&prev) = c.last_hist.get(s) {
                if ht < prev {
                    errs.push((vec!["C02"], format!("client{ci}: confirmed tick of {s} went back {prev} -> {ht}")));
                }
            }
            let Some(ws) = self.snaps.get(&ht) else {
                errs.push((vec!["C02"], format!("client{ci}: confirmed tick {ht} of {s} is not a tick the server replicated")));
                continue;
            };
            let Some(snap) = ws.get(s) else {
                errs.push((vec!["C02"], format!("client{ci}: {s} confirmed at tick {ht} at which the server did not replicate it")));
                continue;
            };
            for k in 0..NK {
                if !is_every_tick_value(k) {
                    continue;
                }
                if let (Some(x), Some(y)) = (get_kind(&cw, k), &snap[k]) {
                    self.obs.inc("c02_values_compared");
                    if &x != y {
                        errs.push((
                            vec!["C02"],
                            format!("client{ci}: {s} confirmed at tick {ht} has {}={} but the server had {} at that tick", KIND_NAMES[k], x.short(), y.short()),
                        ));
                    }
                }
            }
            // marker with history: every recorded (tick, value) is the server's value at that tick
            if let Some(h) = cw.get::<HistVa>() {
                for (t, v) in &h.0 {
                    let t = wire::rel(t.get());
                    if let Some(Some(Val::U(sv))) = self.snaps.get(&t).and_then(|ws| ws.get(s)).map(|sn| sn[K_VA].clone()) {
                        self.obs.inc("marker_history_entries_compared");
                        if sv != *v {
                            errs.push((vec!["C02"], format!("client{ci}: {s} history records Va={v} for tick {t} but the server had {sv} at that tick")));
                        }
                    }
                }
                if h.0.windows(2).any(|w| w[1].0 < w[0].0) {
                    self.obs.inc("marker_history_out_of_order_entries");
                }
            }
            // send-once components: value of the last full send up to the client's update tick
            if let Some(Val::U(x)) = get_kind(&cw, K_ONCE) {
                if let Some(exp) = c.xon.get(&u).and_then(|m| m.get(s)) {
                    self.obs.inc("once_values_compared");
                    if x != *exp {
                        errs.push((
                            vec!["C02"],
                            format!("client{ci}: {s} has Once={x} but its last full send (up to update tick {u}) carried {exp}"),
                        ));
                    }
                }
            }
        }
        c.last_hist = new_hist;

        // C12 end to end
        if self.cfg.track {
            let fired: Vec<u32> = std::mem::take(&mut c.app.world_mut().resource_mut::<Log>().mutate_ticks).into_iter().map(wire::rel).collect();
            for t in fired {
                self.obs.inc("mutate_tick_events");
                if !c.fired.insert(t) {
                    errs.push((vec!["C12"], format!("client{ci}: MutateTickReceived fired twice for tick {t}")));
                }
                let sent = c.sent_per_tick.get(&t).copied().unwrap_or(0);
                let deliv = c.delivered_per_tick.get(&t).copied().unwrap_or(0);
                if sent == 0 || sent != deliv {
                    errs.push((
                        vec!["C12"],
                        format!("client{ci}: tick {t} reported as fully received with {deliv} of {sent} mutate messages delivered"),
                    ));
                }
                if let Some(reqs) = c.delivered_reqs.get(&t) {
                    if let Some(r) = reqs.iter().find(|r| **r > u) {
                        errs.push((
                            vec!["C12"],
                            format!("client{ci}: tick {t} reported as fully received while one of its mutate messages still waits for update tick {r} (client is at {u}) and has not been applied"),
                        ));
                    }
                }
                if !c.app.world().resource::<ServerMutateTicks>().contains(RepliconTick::new(wire::raw(t))) {
                    errs.push((vec!["C12"], format!("client{ci}: tick {t} reported as received but ServerMutateTicks::contains says no")));
                }
            }
            // ... and the notification does fire once every message of a tick has been applied (unless
            // the tick had already left the 64-tick window when its last message was processed)
            let last = wire::rel(c.app.world().resource::<ServerMutateTicks>().last_tick().get());
            // newest tick of which the client has processed at least one message
            let newest = c
                .delivered_per_tick
                .keys()
                .filter(|t| c.delivered_reqs.get(*t).is_some_and(|reqs| reqs.iter().any(|r| *r <= u)))
                .max()
                .copied()
                .unwrap_or(0);
            let complete: Vec<u32> = c
                .delivered_per_tick
                .iter()
                .filter(|(t, n)| c.sent_per_tick.get(*t) == Some(*n) && !c.completion_checked.contains(*t))
                .filter(|(t, _)| c.delivered_reqs.get(*t).is_some_and(|reqs| reqs.iter().all(|r| *r <= u)))
                .map(|(t, _)| *t)
                .collect();
            for t in complete {
                c.completion_checked.insert(t);
                self.obs.inc("c12_completed_ticks_checked");
                if newest - t < 60 && !c.fired.contains(&t) {
                    errs.push((
                        vec!["C12"],
                        format!(
                            "client{ci}: every mutate message of tick {t} has been delivered and applied, but the tick was not reported (ServerMutateTicks::last_tick {last}; {} message(s) requiring update ticks {:?}, client at {u})",
                            c.sent_per_tick[&t], c.delivered_reqs[&t]
                        ),
                    ));
                }
            }
        } else {
            c.app.world_mut().resource_mut::<Log>().mutate_ticks.clear();
        }
        let repl: Vec<(Entity, u32)> = std::mem::take(&mut c.app.world_mut().resource_mut::<Log>().replicated).into_iter().map(|(e, t)| (e, wire::rel(t))).collect();
        self.obs.add("entity_replicated_events", repl.len() as u64);
        // C12 end to end, per-entity part: ConfirmHistory answers membership like the plain set of ticks
        // for which the entity was reported as replicated (inside its 64-tick window)
        for (e, t) in &repl {
            c.conf_ticks.entry(*e).or_default().insert(*t);
        }
        {
            let w = c.app.world();
            c.conf_ticks.retain(|e, _| w.get_entity(*e).is_ok());
            for (e, set) in &c.conf_ticks {
                let Some(h) = w.get::<ConfirmHistory>(*e) else { continue };
                let last = wire::rel(h.last_tick().get());
                for t in last.saturating_sub(63)..=last {
                    let got = h.contains(RepliconTick::new(wire::raw(t)));
                    self.obs.inc("confirm_history_membership_checks");
                    if got != set.contains(&t) {
                        errs.push((
                            vec!["C12"],
                            format!("client{ci}: ConfirmHistory of {e} (last tick {last}) says contains({t}) = {got}, but the entity was{} reported as replicated for that tick", if got { " never" } else { "" }),
                        ));
                        break;
                    }
                }
            }
        }
        for (props, msg) in errs {
            self.viol(&props, msg);
        }
    }

    /// C09: what must be true on the first client frame after a disconnect.
    pub fn check_client_reset(&mut self, ci: usize) {
        let c = &mut self.clients[ci];
        let w = c.app.world();
        let mut errs = vec![];
        let u = w.resource::<ServerUpdateTick>().get();
        if u != 0 {
            errs.push(format!("client{ci}: ServerUpdateTick {u} not reset after disconnect"));
        }
        let n = w.resource::<ServerEntityMap>().to_client().len() + w.resource::<ServerEntityMap>().to_server().len();
        if n != 0 {
            errs.push(format!("client{ci}: ServerEntityMap keeps {n} entries after disconnect"));
        }
        if let Some(t) = w.get_resource::<ServerMutateTicks>() {
            if t.last_tick().get() != 0 || t.mask() != 0 {
                errs.push(format!("client{ci}: ServerMutateTicks not reset after disconnect"));
            }
        }
        self.obs.inc("reset_checks");
        for e in errs {
            self.viol(&["C09"], e);
        }
    }

    // --------------------------------------------------------------------------------------------
    // events: C04, C05 (and the event clauses of C07, C09, C13)
    // --------------------------------------------------------------------------------------------

    pub fn emit_server(&mut self) {
        let n = self.clients.len();
        let target = self.clients[self.rng.below(n)].ent;
        let (mode, sm) = match (self.rng.below(3), target) {
            (0, _) | (_, None) => (Mode::All, SendMode::Broadcast),
            (1, Some(e)) => (Mode::Except(e), SendMode::BroadcastExcept(e)),
            (_, Some(e)) => (Mode::Direct(e), SendMode::Direct(e)),
        };
        let kind = self.rng.below(S_KINDS.len());
        let k = S_KINDS[kind];
        let mut se = None;
        if matches!(k, "SMap" | "STrig" | "SIndTrig") {
            let marked = self.alive_marked();
            let e = if self.rng.below(2) == 0 || marked.is_empty() {
                let v = self.rng.below(100000) as u32;
                let e = self.server.world_mut().spawn((Replicated, Va(v))).id();
                self.ents.push(e);
                self.note(format!("spawn {e} marked=true kinds=[\"Va\"] (event reference)"));
                e
            } else {
                marked[self.rng.below(marked.len())]
            };
            se = Some(e);
        }
        self.seq += 1;
        let seq = self.seq;
        let w = self.server.world_mut();
        match k {
            "SEv" => {
                w.send_event(ToClients { mode: sm, event: SEv(seq) });
            }
            "SEvU" => {
                w.send_event(ToClients { mode: sm, event: SEvU(seq) });
            }
            "SInd" => {
                w.send_event(ToClients { mode: sm, event: SInd(seq) });
            }
            "SMap" => {
                w.send_event(ToClients { mode: sm, event: SMap { seq, e: se.unwrap() } });
            }
            "STrig" => w.server_trigger_targets(ToClients { mode: sm, event: STrig(seq) }, se.unwrap()),
            "SEvTrig" => w.server_trigger(ToClients { mode: sm, event: SEv(seq) }),
            _ => w.server_trigger_targets(ToClients { mode: sm, event: SIndTrig(seq) }, se.unwrap()),
        }
        self.pending_s.push((k, seq, mode, se));
        self.obs.inc("server_events_emitted");
        self.note(format!("emit {k} seq={seq} mode={mode:?} ent={se:?}"));
    }

    /// Called at the start of the server frame that processes the pending emissions: fixes the
    /// intended recipient sets from the connection state at the processing frame.
    pub fn resolve_pending_server_events(&mut self) {
        let pend = std::mem::take(&mut self.pending_s);
        for (kind, seq, mode, se) in pend {
            let mut allowed = BTreeSet::new();
            let mut must = BTreeSet::new();
            for (i, c) in self.clients.iter().enumerate() {
                if c.ent.is_none() {
                    continue;
                }
                let ok = match mode {
                    Mode::All => true,
                    Mode::Except(x) => c.ent != Some(x),
                    Mode::Direct(x) => c.ent == Some(x),
                };
                if !ok {
                    continue;
                }
                allowed.insert((i, c.session));
                if s_kind_independent(kind) || c.authorized {
                    must.insert((i, c.session));
                }
            }
            self.sent_s.push(SentS { kind, seq, allowed, must, got: default(), server_ent: se, frame: self.frame_no });
        }
    }

    pub fn emit_client(&mut self) {
        let i = self.rng.below(self.clients.len());
        if self.clients[i].ent.is_none() {
            return;
        }
        let sess = self.clients[i].session;
        let kind = C_KINDS[self.rng.below(C_KINDS.len())];
        let pairs: Vec<(Entity, Entity)> = self.clients[i]
            .app
            .world()
            .resource::<ServerEntityMap>()
            .to_server()
            .iter()
            .map(|(c, s)| (*c, *s))
            .collect();
        let mut pairs = pairs;
        pairs.sort();
        let mut ce = None;
        let mut se = None;
        if matches!(kind, "CMap" | "CTrig") {
            if pairs.is_empty() {
                return;
            }
            let (c, s) = pairs[self.rng.below(pairs.len())];
            ce = Some(c);
            se = Some(s);
        }
        self.seq += 1;
        let seq = self.seq;
        let w = self.clients[i].app.world_mut();
        match kind {
            "CEv" => {
                w.send_event(CEv(seq));
            }
            "CEvU" => {
                w.send_event(CEvU(seq));
            }
            "CMap" => {
                w.send_event(CMap { seq, e: ce.unwrap() });
            }
            _ => w.client_trigger_targets(CTrig(seq), ce.unwrap()),
        }
        self.sent_c.push(SentC { ci: i, session: sess, kind, seq, client_ent: ce, server_ent: se, handled: 0, handled_locally: 0, on_wire: false, may_be_lost: false });
        self.obs.inc("client_events_emitted");
        self.note(format!("client{i} emit {kind} seq={seq} ent={ce:?}"));
    }

    pub fn mark_client_event_on_wire(&mut self, ci: usize, ch: usize, m: &Bytes) {
        let Some(kind) = self.c_kind_of_channel(ch) else { return };
        if let Some(seq) = Self::seq_of_payload(kind, m) {
            for s in &mut self.sent_c {
                if s.ci == ci && s.kind == kind && s.seq == seq {
                    if s.on_wire {
                        self.errs.push(crate::util::Violation {
                            props: vec!["C05"],
                            msg: format!("client{ci} put {kind} seq {seq} on the network twice"),
                        });
                    }
                    s.on_wire = true;
                }
            }
        }
    }

    pub fn mark_client_event_lost(&mut self, ci: usize, ch: usize, m: &Bytes) {
        let Some(kind) = self.c_kind_of_channel(ch) else { return };
        if let Some(seq) = Self::seq_of_payload(kind, m) {
            for s in &mut self.sent_c {
                if s.ci == ci && s.kind == kind && s.seq == seq {
                    s.may_be_lost = true;
                }
            }
        }
    }

    /// Server-side observations after a server frame.
    pub fn check_server_log(&mut self) {
        let (recs, reqs) = {
            let mut l = self.server.world_mut().resource_mut::<Log>();
            (std::mem::take(&mut l.recs), std::mem::take(&mut l.disconnect_requests))
        };
        // C07 / C14: handshake outcome
        for e in reqs {
            match self.clients.iter().position(|c| c.ent == Some(e)) {
                Some(ci) if self.clients[ci].mismatch => {
                    self.clients[ci].pending_disconnect = true;
                    self.obs.inc("disconnect_requests_for_mismatch");
                    if self.clients[ci].authorized {
                        self.viol(&["C07", "C14"], format!("client{ci} with a different protocol was authorized"));
                    }
                }
                Some(ci) => self.viol(
                    &["C14", "C07"],
                    format!("disconnect requested for client{ci} although its protocol matches"),
                ),
                None => {}
            }
        }
        for ci in 0..self.clients.len() {
            if self.clients[ci].mismatch && self.clients[ci].authorized {
                self.viol(&["C07", "C14"], format!("client{ci} with a different protocol is authorized"));
            }
        }
        for r in recs {
            let Some(sender) = r.sender else { continue };
            if sender == SERVER {
                // local re-emission on a listen-server style app: not part of the remote history
                continue;
            }
            self.obs.inc("client_events_observed_on_server");
            let Some(ci) = self.clients.iter().position(|c| c.ent == Some(sender)) else {
                self.viol(&["C05", "C09"], format!("server observed {r:?} from a client that is not connected"));
                continue;
            };
            let sess = self.clients[ci].session;
            let pos = self.sent_c.iter().position(|s| s.kind == r.kind && s.seq == r.seq);
            let Some(p) = pos else {
                self.viol(&["C05"], format!("server observed {r:?} that no client sent"));
                continue;
            };
            let s = self.sent_c[p].clone();
            if s.ci != ci {
                self.viol(
                    &["C05"],
                    format!("server observed {} seq {} with sender client{ci} but client{} sent it", r.kind, r.seq, s.ci),
                );
            }
            if s.session != sess {
                self.viol(
                    &["C05", "C09"],
                    format!("server observed {} seq {} of client{ci}'s previous session {} in session {sess}", r.kind, r.seq, s.session),
                );
            }
            self.sent_c[p].handled += 1;
            if self.sent_c[p].handled > 1 {
                self.viol(&["C05"], format!("server observed {} seq {} from client{ci} {} times", r.kind, r.seq, self.sent_c[p].handled));
            }
            if r.kind != "CEvU" {
                let key = (ci, sess, r.kind);
                let last = self.c_last.entry(key).or_insert(0);
                if r.seq <= *last {
                    let l = *last;
                    self.viol(&["C05"], format!("server observed {} seq {} from client{ci} after seq {l} (ordered channel)", r.kind, r.seq));
                } else {
                    *last = r.seq;
                }
            }
            if r.kind == "CMap" || r.kind == "CTrig" {
                let got = if r.kind == "CMap" { r.ent } else { r.targets.first().copied() };
                if s.server_ent.is_some() && s.server_ent != got {
                    self.viol(
                        &["C05"],
                        format!("{} seq {} from client{ci}: entity arrived as {got:?}, the client's map says {:?}", r.kind, r.seq, s.server_ent),
                    );
                }
            }
        }
    }

    /// Client-side observations after a client frame.
    pub fn check_client_log(&mut self, i: usize) {
        let recs = std::mem::take(&mut self.clients[i].app.world_mut().resource_mut::<Log>().recs);
        let sess = self.clients[i].session;
        let connected = self.clients[i].ent.is_some();
        for mut r in recs {
            r.utick = wire::rel(r.utick);
            if let Some(sender) = r.sender {
                // FromClient observed inside a client app: only legal as local re-emission (sender =
                // SERVER) of an event that was never handed to the transport. Triggers are observed
                // one frame after their re-emission, so the connection state of *this* frame says nothing.
                if sender != SERVER {
                    self.viol(&["C13", "C05"], format!("client{i} observed FromClient {r:?} from a remote sender"));
                    continue;
                }
                match self.sent_c.iter().position(|s| s.ci == i && s.kind == r.kind && s.seq == r.seq) {
                    Some(p) => {
                        self.sent_c[p].handled_locally += 1;
                        let s = self.sent_c[p].clone();
                        if s.on_wire {
                            self.viol(
                                &["C13", "C09"],
                                format!("client{i}: {} seq {} (session {}) was sent to the remote server and handled again locally after the disconnect", s.kind, s.seq, s.session),
                            );
                        } else if s.handled_locally > 1 {
                            self.viol(&["C13"], format!("client{i}: {} seq {} handled locally {} times", s.kind, s.seq, s.handled_locally));
                        } else {
                            self.obs.inc("client_events_handled_locally_after_disconnect");
                        }
                    }
                    None => self.viol(&["C13"], format!("client{i} locally observed unknown {r:?}")),
                }
                continue;
            }
            if !connected {
                self.viol(&["C09", "C05"], format!("client{i} observed server event {r:?} while disconnected"));
                continue;
            }
            self.obs.inc("server_events_observed_on_clients");
            let Some(p) = self.sent_s.iter().position(|s| s.kind == r.kind && s.seq == r.seq) else {
                self.viol(&["C05"], format!("client{i} observed {r:?} that the server never sent"));
                continue;
            };
            let key = (i, sess);
            let s = self.sent_s[p].clone();
            if !s.allowed.contains(&key) {
                let old = s.allowed.iter().any(|(c, _)| *c == i);
                let props: &[&'static str] = if old { &["C05", "C09"] } else { &["C05"] };
                self.viol(
                    props,
                    format!("client{i} (session {sess}) observed {} seq {} which was addressed to {:?}", r.kind, r.seq, s.allowed),
                );
                continue;
            }
            if !self.sent_s[p].got.insert(key) {
                self.viol(&["C05"], format!("client{i} observed {} seq {} twice", r.kind, r.seq));
            }
            if r.kind != "SEvU" {
                let k = (i, sess, r.kind);
                let last = self.s_last.entry(k).or_insert(0);
                if r.seq <= *last {
                    let l = *last;
                    self.viol(&["C05"], format!("client{i} observed {} seq {} after seq {l} (ordered channel)", r.kind, r.seq));
                } else {
                    *last = r.seq;
                }
            }
            if !s_kind_independent(r.kind) {
                // C04: never ahead of the replication it depends on
                match self.clients[i].stamps.get(&(r.kind, r.seq)) {
                    Some(&stamp) => {
                        self.obs.inc("c04_delivery_checks");
                        if r.utick < stamp {
                            self.viol(
                                &["C04"],
                                format!("client{i} observed {} seq {} at update tick {} but it was sent after update tick {stamp}", r.kind, r.seq, r.utick),
                            );
                        }
                        if r.utick > stamp {
                            self.obs.inc("events_delivered_after_later_updates");
                        }
                        // independent of what the client reports: the transport must have handed over the
                        // update message of the stamped tick in THIS session before the event is observed
                        let delivered = self.clients[i].last_upd_tick_delivered;
                        if stamp != 0 && delivered < stamp {
                            self.viol(
                                &["C04"],
                                format!("client{i} observed {} seq {} (sent after update tick {stamp}) although the last update message delivered to it in this session has tick {delivered}", r.kind, r.seq),
                            );
                        }
                    }
                    None => self.viol(&["C04", "C05"], format!("client{i} observed {} seq {} which was never put on the wire for it", r.kind, r.seq)),
                }
            }
            if matches!(r.kind, "SMap" | "STrig" | "SIndTrig") {
                let map = self.clients[i].app.world().resource::<ServerEntityMap>();
                let got = if r.kind == "SMap" { r.ent } else { r.targets.first().copied() };
                let want = s.server_ent.and_then(|e| map.to_client().get(&e).copied());
                self.obs.inc("event_entity_resolutions_checked");
                if r.kind == "SIndTrig" {
                    // independent: may legitimately arrive before the entity; placeholder is documented
                    if want.is_some() && got != want {
                        self.viol(&["C05"], format!("client{i} {} seq {}: target {got:?} but the map says {want:?}", r.kind, r.seq));
                    }
                } else if got.is_some_and(|g| self.clients[i].app.world().get_entity(g).is_err()) {
                    self.viol(
                        &["C04"],
                        format!("client{i} {} seq {}: delivered with a reference to {got:?}, which does not exist on the client (server entity {:?})", r.kind, r.seq, s.server_ent),
                    );
                } else if got != want || want.is_none() {
                    self.viol(
                        &["C04"],
                        format!("client{i} {} seq {}: entity delivered as {got:?}, the client's map has {want:?} for {:?}", r.kind, r.seq, s.server_ent),
                    );
                }
            }
        }
    }

    /// After quiescence: reliable events must have arrived.
    pub fn check_events_final(&mut self) {
        let mut errs = vec![];
        for s in &self.sent_s {
            if s.kind == "SIndTrig" {
                // independent + entity target: races with replication by design, may be withheld
                continue;
            }
            let mapped = matches!(s.kind, "SMap" | "STrig");
            if mapped {
                let stable = self.cfg.vis == Vis::All
                    && s.server_ent.is_some_and(|e| {
                        self.server.world().get_entity(e).is_ok_and(|w| w.contains::<Replicated>()) && !self.unmarked_once.contains(&e)
                    });
                if !stable {
                    continue;
                }
            }
            for key in &s.must {
                let (ci, sess) = *key;
                if self.clients[ci].ent.is_some() && self.clients[ci].session == sess && !s.got.contains(key) {
                    errs.push(format!("reliable {} seq {} (frame {}) never reached client{ci} although its session stayed up", s.kind, s.seq, s.frame));
                }
            }
        }
        for s in &self.sent_c {
            if s.kind == "CEv" && !s.may_be_lost && s.handled + s.handled_locally == 0 && self.clients[s.ci].ent.is_some() && self.clients[s.ci].session == s.session {
                errs.push(format!("reliable CEv seq {} from client{} never reached the server although its session stayed up", s.seq, s.ci));
            }
        }
        self.obs.add("events_final_checked", (self.sent_s.len() + self.sent_c.len()) as u64);
        for e in errs {
            self.viol(&["C05"], e);
        }
    }

    // --------------------------------------------------------------------------------------------
    // quiescence: C01 (and the eventual clauses of C07, C08), C11 rest
    // --------------------------------------------------------------------------------------------

    pub fn compare_final(&mut self) {
        let now = self.snapshot();
        let tick_now = self.last_tick_seen;
        for ci in 0..self.clients.len() {
            let mismatch = self.clients[ci].mismatch;
            if self.clients[ci].ent.is_none() && !mismatch {
                self.viol(&["C01"], format!("harness: client{ci} not connected at quiescence"));
                continue;
            }
            let want: BTreeMap<Entity, Snap> = if mismatch {
                BTreeMap::new()
            } else {
                now.iter().filter(|(e, _)| self.expected_visible(ci, **e)).map(|(e, s)| (*e, s.clone())).collect()
            };
            if !mismatch && !self.clients[ci].authorized {
                self.viol(&["C07", "C14"], format!("client{ci} with a matching protocol was never authorized"));
                continue;
            }
            let mut errs: Vec<(Vec<&'static str>, String)> = vec![];
            let mut known = vec![];
            let ever_explicit = &self.ever_explicit;
            let explicit = |e: &Entity| ever_explicit.contains(&(ci, *e));
            let c = &mut self.clients[ci];
            let map = c.app.world().resource::<ServerEntityMap>();
            let to_client: BTreeMap<Entity, Entity> = map.to_client().iter().map(|(a, b)| (*a, *b)).collect();
            let to_server: BTreeMap<Entity, Entity> = map.to_server().iter().map(|(a, b)| (*a, *b)).collect();
            let have: BTreeSet<Entity> = to_client
                .iter()
                .filter(|(_, ce)| c.app.world().get_entity(**ce).map_or(true, |w| Self::client_holds(&w)))
                .map(|(s, _)| *s)
                .collect();
            let wantk: BTreeSet<Entity> = want.keys().copied().collect();
            self.obs.add("c01_entities_compared", wantk.len() as u64);
            if have != wantk {
                let missing: Vec<_> = wantk.difference(&have).copied().collect();
                let extra: Vec<_> = have.difference(&wantk).copied().collect();
                let mut props = vec!["C01"];
                if missing.iter().chain(extra.iter()).any(explicit) {
                    props.push("C08");
                }
                if mismatch {
                    props = vec!["C07"];
                } else if !missing.is_empty() && c.joined_late {
                    props.push("C07");
                }
                errs.push((props, format!("client{ci} at quiescence (tick {tick_now}): missing {missing:?} extra {extra:?}")));
            }
            for (s, snap) in &want {
                let Some(ce) = to_client.get(s) else { continue };
                let Ok(cw) = c.app.world().get_entity(*ce) else { continue };
                for k in 0..NK {
                    let got = match (k, get_kind(&cw, k)) {
                        (K_LINK | K_ATT | K_OWN, Some(Val::E(t))) => Some(to_server.get(&t).map(|x| Val::E(*x)).unwrap_or(Val::U(u32::MAX))),
                        (_, g) => g,
                    };
                    if k == K_ONCE {
                        // value checked per frame against the send-once model; presence here
                        if got.is_some() != snap[k].is_some() {
                            errs.push((vec!["C01"], format!("client{ci} at quiescence: {s} Once present={} expected={}", got.is_some(), snap[k].is_some())));
                        }
                        continue;
                    }
                    if got == snap[k] {
                        self.obs.inc("c01_values_compared");
                        continue;
                    }
                    if k == K_PER && got.is_some() && snap[k].is_some() {
                        // F4 classification: the entity travelled without its pending periodic change
                        let pe_muts = self.pe_mut_frames.get(s).cloned().unwrap_or_default();
                        let structs = self.struct_frames.get(s).cloned().unwrap_or_default();
                        let off = c.offperiod.get(s).cloned().unwrap_or_default();
                        let mut is_known = false;
                        for fp in pe_muts {
                            let ws = self.tick_frame.values().copied().filter(|f| *f <= fp).max().unwrap_or(0);
                            if off.iter().any(|fm| *fm > fp) || structs.iter().any(|fo| *fo >= ws) {
                                is_known = true;
                            }
                        }
                        if is_known {
                            known.push(format!("periodic-change-lost-with-interim-traffic: client{ci} {s} Per={} server {}", got.as_ref().unwrap().short(), snap[k].as_ref().unwrap().short()));
                            continue;
                        }
                    }
                    if (k == K_LINK || k == K_ATT || k == K_OWN) && got == Some(Val::U(u32::MAX)) {
                        if let Some(Val::E(target)) = &snap[k] {
                            if self.repointed.contains(&(ci, *target)) {
                                known.push(format!(
                                    "reference-superseded-by-prespawn-mapping: client{ci} {s} {} points to an unmapped client entity, the server has {target} (pre-mapped after it had been referenced)",
                                    KIND_NAMES[k]
                                ));
                                continue;
                            }
                        }
                    }
                    let mut props = vec!["C01"];
                    if explicit(s) {
                        props.push("C08");
                    }
                    errs.push((
                        props,
                        format!(
                            "client{ci} at quiescence: {s} {}={} but the server has {}",
                            KIND_NAMES[k],
                            got.as_ref().map(|v| v.short()).unwrap_or("-".into()),
                            snap[k].as_ref().map(|v| v.short()).unwrap_or("-".into())
                        ),
                    ));
                }
            }
            let mut q = c.app.world_mut().query_filtered::<Entity, With<Replicated>>();
            let marked = q.iter(c.app.world()).count();
            if marked != want.len() {
                errs.push((vec!["C01"], format!("client{ci} at quiescence: {marked} marked entities, the server replicates {} to it", want.len())));
            }
            for (p, m) in errs {
                self.viol(&p, m);
            }
            for k in known {
                if k.starts_with("periodic") {
                    self.obs.inc("known_f4_hits");
                } else {
                    self.obs.inc("known_f20_hits");
                }
                self.known.push(k);
            }
        }
    }

    /// C11: at rest the server is silent (one empty mutate message per tick iff tracking).
    pub fn idle_check(&mut self) {
        let mut ticks = 0;
        for round in 0..12 {
            if ticks >= 3 {
                break;
            }
            self.server_frame(true);
            let ticked = self.last_frame_ticked;
            if ticked {
                ticks += 1;
            }
            for ci in 0..self.clients.len() {
                if self.clients[ci].ent.is_none() {
                    continue;
                }
                let track = self.cfg.track;
                let c = &mut self.clients[ci];
                let upd = c.s2c.get(&0).map_or(0, |q| q.len());
                let muts: Vec<Bytes> = c.s2c.get(&1).map(|q| q.iter().cloned().collect()).unwrap_or_default();
                let mut bad = vec![];
                if upd != 0 {
                    bad.push(format!("client{ci}: {upd} update message(s) at rest (round {round})"));
                }
                if (!track || !ticked) && !muts.is_empty() {
                    bad.push(format!("client{ci}: {} mutate message(s) at rest (round {round}, tick in this frame: {ticked})", muts.len()));
                }
                if track && ticked && c.authorized {
                    let empty = muts.iter().all(|m| wire::mutate_msg(m, true).is_some_and(|d| d.entities.is_empty()));
                    if muts.len() != 1 || !empty {
                        bad.push(format!("client{ci}: tracking on, expected exactly one empty mutate message per tick at rest, got {} (all empty: {empty})", muts.len()));
                    }
                }
                c.s2c.clear();
                self.obs.inc("idle_checks");
                for b in bad {
                    self.viol(&["C11"], b);
                }
            }
            if !self.errs.is_empty() {
                return;
            }
        }
        // and traffic resumes with the next change
        let marked = self.alive_marked();
        let cand: Vec<Entity> = marked.into_iter().filter(|e| self.server.world().entity(*e).contains::<Va>()).collect();
        if let Some(&e) = cand.first() {
            let watchers: Vec<usize> = (0..self.clients.len())
                .filter(|ci| self.clients[*ci].ent.is_some() && self.clients[*ci].authorized && !self.clients[*ci].mismatch && self.expected_visible(*ci, e))
                .collect();
            let mut em = self.server.world_mut().entity_mut(e);
            mutate_kind(&mut em, K_VA, Val::U(4_000_000));
            self.last_mut_frame.insert(e, self.frame_no);
            self.note(format!("mutate {e} (resume probe)"));
            for _ in 0..4 {
                self.server_frame(true);
                if self.last_frame_ticked {
                    break;
                }
            }
            if !self.last_frame_ticked {
                return;
            }
            for ci in watchers {
                let found = self.clients[ci]
                    .s2c
                    .get(&1)
                    .is_some_and(|q| q.iter().any(|m| wire::mutate_msg(m, self.cfg.track).is_some_and(|d| d.entities.iter().any(|(x, _)| *x == e))));
                self.obs.inc("resume_checks");
                if !found {
                    self.viol(&["C11"], format!("client{ci}: a change of {e} after rest produced no mutate message"));
                }
            }
        }
    }
}

fn wire_varint_len(v: u64) -> usize {
    let mut n = 1;
    let mut v = v >> 7;
    while v != 0 {
        n += 1;
        v >>= 7;
    }
    n
}
