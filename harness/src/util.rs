//! Small shared helpers: deterministic RNG, hashing, counters, result records.
use serde_json::{Map, Value, json};
use std::collections::{BTreeMap, BTreeSet};

/// xorshift64* style generator. Everything random in the harness derives from one of these,
/// so a run is a pure function of (seed, profile, tier parameters).
#[derive(Clone)]
pub struct Rng(pub u64);

impl Rng {
    pub fn new(seed: u64) -> Self {
        // splitmix step so that neighbouring seeds diverge immediately
        let mut z = seed.wrapping_add(0x9E37_79B9_7F4A_7C15);
        z = (z ^ (z >> 30)).wrapping_mul(0xBF58_476D_1CE4_E5B9);
        z = (z ^ (z >> 27)).wrapping_mul(0x94D0_49BB_1331_11EB);
        z ^= z >> 31;
        Rng(z | 1)
    }
    pub fn next(&mut self) -> u64 {
        let mut x = self.0;
        x ^= x << 13;
        x ^= x >> 7;
        x ^= x << 17;
        self.0 = x;
        x.wrapping_mul(0x2545_F491_4F6C_DD1D)
    }
    pub fn below(&mut self, n: usize) -> usize {
        if n == 0 {
            return 0;
        }
        (self.next() % n as u64) as usize
    }
    pub fn chance(&mut self, num: usize, den: usize) -> bool {
        self.below(den) < num
    }
    pub fn pick<'a, T>(&mut self, xs: &'a [T]) -> &'a T {
        &xs[self.below(xs.len())]
    }
    pub fn bytes(&mut self, n: usize) -> Vec<u8> {
        (0..n).map(|_| self.next() as u8).collect()
    }
}

pub fn fnv64(data: &[u8]) -> u64 {
    let mut h: u64 = 0xcbf2_9ce4_8422_2325;
    for b in data {
        h ^= *b as u64;
        h = h.wrapping_mul(0x0000_0100_0000_01b3);
    }
    h
}

/// Named counters of what the monitors observed.
#[derive(Default, Clone, Debug)]
pub struct Obs(pub BTreeMap<String, u64>);

impl Obs {
    pub fn add(&mut self, k: &str, n: u64) {
        if let Some(v) = self.0.get_mut(k) {
            *v += n;
        } else {
            self.0.insert(k.to_string(), n);
        }
    }
    pub fn inc(&mut self, k: &str) {
        self.add(k, 1);
    }
    pub fn max(&mut self, k: &str, n: u64) {
        let e = self.0.entry(k.to_string()).or_insert(0);
        if n > *e {
            *e = n;
        }
    }
    pub fn get(&self, k: &str) -> u64 {
        self.0.get(k).copied().unwrap_or(0)
    }
    pub fn merge(&mut self, other: &Obs) {
        for (k, v) in &other.0 {
            if k.starts_with("max_") {
                self.max(k, *v);
            } else {
                self.add(k, *v);
            }
        }
    }
    pub fn to_json(&self) -> Value {
        let mut m = Map::new();
        for (k, v) in &self.0 {
            m.insert(k.clone(), json!(v));
        }
        Value::Object(m)
    }
}

/// One oracle complaint.
#[derive(Clone, Debug)]
pub struct Violation {
    /// Property ids this complaint refutes (an observation may refute several statements).
    pub props: Vec<&'static str>,
    pub msg: String,
}

/// Result of a shard (a contiguous seed range run by one worker process).
#[derive(Default)]
pub struct ShardResult {
    pub runs: u64,
    pub aborted: u64,
    pub nontrivial: BTreeSet<u64>,
    pub obs: Obs,
    pub configs: BTreeMap<String, u64>,
    pub samples: Vec<Value>,
    /// (property, seed, message, replay path)
    pub violations: Vec<Value>,
    pub known: Vec<Value>,
}

impl ShardResult {
    pub fn to_json(&self) -> Value {
        json!({
            "runs": self.runs,
            "aborted": self.aborted,
            "nontrivial": self.nontrivial.iter().map(|h| format!("{h:016x}")).collect::<Vec<_>>(),
            "obs": self.obs.to_json(),
            "configs": self.configs,
            "samples": self.samples,
            "violations": self.violations,
            "known": self.known,
        })
    }
}

/// Minimal argv parser: `--key value` pairs and bare flags.
pub struct Args(pub Vec<String>);

impl Args {
    pub fn from_env() -> Self {
        Args(std::env::args().skip(1).collect())
    }
    pub fn get(&self, key: &str) -> Option<&str> {
        self.0
            .iter()
            .position(|a| a == key)
            .and_then(|i| self.0.get(i + 1))
            .map(|s| s.as_str())
    }
    pub fn num<T: std::str::FromStr>(&self, key: &str, default: T) -> T {
        self.get(key).and_then(|s| s.parse().ok()).unwrap_or(default)
    }
    pub fn flag(&self, key: &str) -> bool {
        self.0.iter().any(|a| a == key)
    }
}

/// Installs a panic hook that records the panic message instead of printing it,
/// so that worker output stays machine readable. Returns nothing; use `take_panic`.
pub fn quiet_panics() {
    std::panic::set_hook(Box::new(|info| {
        let msg = if let Some(s) = info.payload().downcast_ref::<&str>() {
            s.to_string()
        } else if let Some(s) = info.payload().downcast_ref::<String>() {
            s.clone()
        } else {
            "<non-string panic>".to_string()
        };
        let loc = info
            .location()
            .map(|l| format!("{}:{}", l.file(), l.line()))
            .unwrap_or_default();
        LAST_PANIC.with(|p| *p.borrow_mut() = Some(format!("{msg} @ {loc}")));
    }));
}

thread_local! {
    pub static LAST_PANIC: std::cell::RefCell<Option<String>> = const { std::cell::RefCell::new(None) };
}

pub fn take_panic() -> Option<String> {
    LAST_PANIC.with(|p| p.borrow_mut().take())
}

pub fn write_json(path: &str, v: &Value) {
    if let Some(dir) = std::path::Path::new(path).parent() {
        let _ = std::fs::create_dir_all(dir);
    }
    std::fs::write(path, serde_json::to_vec_pretty(v).unwrap()).expect("write json");
}
