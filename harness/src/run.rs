//! One simulator run = (property focus, seed[, fault point]) -> outcome.
use crate::{sim::*, util::*};
use serde_json::{Value, json};
use std::panic::{AssertUnwindSafe, catch_unwind};

pub const PROP_IDS: [&str; 18] = [
    "C01", "C02", "C03", "C04", "C05", "C06", "C07", "C08", "C09", "C10", "C11", "C12", "C13", "C14", "C15", "C16", "C17", "C18",
];

pub struct Outcome {
    pub seed: u64,
    pub cfg: String,
    pub errs: Vec<Violation>,
    pub known: Vec<String>,
    pub obs: Obs,
    pub log: Vec<String>,
    pub trace_hash: u64,
    /// The harness itself failed (not a verdict about the library).
    pub harness_error: Option<String>,
    pub completed: bool,
}

#[derive(Clone, Copy, Debug)]
pub struct Fault {
    /// inject before step `at`
    pub at: usize,
    /// 0 = client disconnect, 1 = server stop/start
    pub kind: u8,
}

pub fn steps_for(seed: u64, prof: &Profile) -> usize {
    let mut r = Rng::new(seed ^ 0x57E9_5000);
    prof.steps.0 + r.below(prof.steps.1 - prof.steps.0 + 1)
}

pub fn run_one(prop: &str, seed: u64, fault: Option<Fault>) -> Outcome {
    let prof = Profile::for_case(prop, seed);
    let steps = steps_for(seed, &prof);
    let target: &'static str = PROP_IDS.iter().copied().find(|p| *p == prop).unwrap_or("C01");
    let mut slot: Option<Sim> = None;
    let res = catch_unwind(AssertUnwindSafe(|| {
        slot = Some(Sim::new(seed, prof.clone()));
        let sim = slot.as_mut().unwrap();
        sim.server_frame(true);
        let mut completed = false;
        for i in 0..steps {
            if let Some(f) = fault {
                if f.at == i {
                    inject(sim, f);
                }
            }
            sim.step();
            // stop at a violation of the property under check; violations of other properties are
            // recorded (bounded) and the run goes on so that this property's own oracles still run
            if sim.errs.iter().any(|e| e.props.contains(&target)) || sim.errs.len() > 12 {
                return completed;
            }
        }
        if let Some(f) = fault {
            if f.at >= steps {
                inject(sim, f);
            }
        }
        sim.quiesce(14 + crate::comps::PERIOD as usize);
        let hit = |sim: &Sim| sim.errs.iter().any(|e| e.props.contains(&target)) || sim.errs.len() > 12;
        if !hit(sim) {
            sim.compare_final();
            sim.check_events_final();
        }
        if !hit(sim) {
            sim.idle_check();
            completed = true;
        }
        completed
    }));
    let in_update = IN_UPDATE.with(|f| f.replace(false));
    let panic_msg = take_panic();
    let mut out = Outcome {
        seed,
        cfg: String::new(),
        errs: vec![],
        known: vec![],
        obs: Obs::default(),
        log: vec![],
        trace_hash: 0,
        harness_error: None,
        completed: false,
    };
    if let Some(sim) = slot.as_mut() {
        out.cfg = sim.cfg.key();
        out.errs = std::mem::take(&mut sim.errs);
        out.known = std::mem::take(&mut sim.known);
        out.obs = std::mem::take(&mut sim.obs);
        out.log = std::mem::take(&mut sim.log);
    }
    match res {
        Ok(c) => out.completed = c,
        Err(_) => {
            let msg = panic_msg.unwrap_or_else(|| "<unknown panic>".into());
            // Bevy appends a backtrace to error-handler panics; keep the first lines only
            let loc = msg.rsplit(" @ ").next().unwrap_or("").to_string();
            let head: String = msg.lines().take(2).collect::<Vec<_>>().join(" ").chars().take(300).collect();
            let msg = if msg.lines().count() > 2 { format!("{head} ... @ {loc}") } else { msg };
            if in_update {
                let mut props = vec!["C01"];
                if slot.as_ref().is_some_and(|s| s.after_fault) {
                    props.push("C09");
                }
                out.log.push(format!("PANIC inside App::update(): {msg}"));
                out.errs.push(Violation { props, msg: format!("panic inside App::update(): {msg}") });
            } else {
                out.harness_error = Some(msg);
            }
        }
    }
    // a poisoned world must not run its destructors' assertions into our face
    if let Some(sim) = slot.take() {
        let _ = catch_unwind(AssertUnwindSafe(move || drop(sim)));
        let _ = take_panic();
    }
    let mut h = fnv64(out.cfg.as_bytes());
    for l in &out.log {
        h = h.rotate_left(5) ^ fnv64(l.as_bytes());
    }
    out.trace_hash = h;
    out
}

fn inject(sim: &mut Sim, f: Fault) {
    sim.note(format!("FAULT kind={} at step {}", f.kind, f.at));
    sim.obs.inc("faults_injected");
    // what is in flight at the injection point
    let mut inflight = 0u64;
    let mut buffered_events = 0u64;
    for c in &sim.clients {
        inflight += c.s2c.values().map(|q| q.len() as u64).sum::<u64>();
        inflight += c.c2s.values().map(|q| q.len() as u64).sum::<u64>();
        buffered_events += c.s2c.iter().filter(|(ch, _)| **ch >= 2).map(|(_, q)| q.len() as u64).sum::<u64>();
    }
    sim.obs.add("messages_in_flight_at_fault", inflight);
    sim.obs.add("event_messages_in_flight_at_fault", buffered_events);
    if inflight > 0 {
        sim.obs.inc("faults_with_messages_in_flight");
    }
    if !sim.pending_s.is_empty() {
        sim.obs.inc("faults_with_server_events_pending");
    }
    if f.kind == 0 {
        let n = sim.clients.len();
        let start = sim.rng.below(n);
        for d in 0..n {
            let ci = (start + d) % n;
            if sim.clients[ci].ent.is_some() {
                // half of the time some of the queued messages reach the client right before the cut,
                // so that mutate messages / events are buffered inside the client when it disconnects
                if sim.rng.below(2) == 0 {
                    sim.clients[ci].hold_upd = false;
                    let chans: Vec<usize> = sim.clients[ci].s2c.keys().copied().filter(|c| *c != 0).collect();
                    for ch in chans {
                        while let Some(m) = sim.clients[ci].s2c.get_mut(&ch).unwrap().pop_front() {
                            sim.clients[ci].app.world_mut().resource_mut::<bevy_replicon::prelude::RepliconClient>().insert_received(ch, m);
                        }
                    }
                    sim.obs.inc("faults_with_client_side_buffers");
                }
                sim.disconnect(ci);
                sim.after_fault = true;
                if sim.rng.below(2) == 0 {
                    sim.connect(ci);
                }
                return;
            }
        }
        sim.after_fault = true;
    } else {
        if sim.server_frames_since_start == 0 {
            sim.server_frame(false);
        }
        sim.restart_server();
        sim.after_fault = true;
    }
}

pub fn nontrivial(prop: &str, o: &Outcome) -> bool {
    let g = |k: &str| o.obs.get(k);
    if !o.completed {
        return false;
    }
    match prop {
        "C01" => g("c01_entities_compared") > 0 && (g("dropped_s2c") + g("reordered") + g("holds") + g("multi_frame_ticks")) > 0,
        "C02" => g("mutate_delivered_before_its_update") > 0 && g("c02_values_compared") > 0,
        "C03" => g("update_tick_advances") >= 3 && g("c03_entities_compared") > 0 && g("multi_frame_ticks") > 0,
        "C04" => g("c04_delivery_checks") > 0,
        "C05" => g("server_events_observed_on_clients") + g("client_events_observed_on_server") >= 3,
        "C07" => g("ticks_with_unauthorized_client") > 0,
        "C08" => g("secret_scans") > 0 && g("op_set_visibility") > 0,
        "C09" => g("faults_injected") > 0 && g("reset_checks") > 0 && g("c01_entities_compared") > 0,
        "C10" => g("wire_tick_checks") > 0 && (g("ticks_with_split_mutations") > 0 || g("related_groups_seen") > 0),
        "C11" => g("n1_checks") + g("n2_checks") > 0 && g("idle_checks") > 0,
        "C12" => g("mutate_tick_events") > 0,
        "C16" => g("prespawn_checks") > 0,
        _ => true,
    }
}

pub fn rule_text(prop: &str) -> &'static str {
    match prop {
        "C01" => "one case = one seed-determined session (config + 150..400 steps of world ops / frames / per-message deliver-hold-drop / lifecycle) followed by bounded quiescence; non-trivial = ran to the final comparison with >=1 entity compared and >=1 dropped, reordered or held message or multi-frame tick; distinct = distinct hash of config + full step trace",
        "C02" => "one case = one session under the schedule-heavy profile; non-trivial = >=1 mutate message was delivered before the update message it depends on (buffered) and >=1 component value was compared against the snapshot of the entity's confirmed tick; distinct = distinct trace hash",
        "C03" => "one case = one session under the structure-heavy profile; non-trivial = the client's update tick advanced >=3 times, >=1 entity structure compared and >=1 tick spanned several server frames; distinct = distinct trace hash",
        "C04" => "one case = one session with dependent events overtaking update messages; non-trivial = >=1 dependent event delivery was checked against its wire stamp; distinct = distinct trace hash",
        "C05" => "one case = one session with events in both directions and clients joining/leaving; non-trivial = >=3 event deliveries observed; distinct = distinct trace hash",
        "C07" => "one case = one session under a sampled authorization method; non-trivial = >=1 server tick happened while a connected client was unauthorized and replicated entities existed; distinct = distinct trace hash",
        "C08" => "one case = one session under Blacklist/Whitelist with visibility-heavy ops; non-trivial = >=1 set_visibility call and >=1 secret scanned for in outgoing bytes; distinct = distinct trace hash",
        "C09" => "one case = (base scenario seed, fault point k, fault kind): the base scenario replayed to step k, a client disconnect or server stop injected, then fresh steps and quiescence; non-trivial = fault injected, reset checks ran and the final comparison ran; distinct = distinct trace hash",
        "C10" => "one case = one session with Blob sizes constructed around the clients' max message sizes and evolving relationship graphs; non-trivial = >=1 tick's mutate traffic decoded and (a tick was split into several messages or a related group travelled); distinct = distinct trace hash",
        "C11" => "one case = one session with delayed/lost/junk acknowledgements ending in a rest phase; non-trivial = >=1 N1/N2 evaluation and the rest-phase checks ran; distinct = distinct trace hash",
        "C12" => "one case = one session with mutate-message tracking on and lossy delivery; non-trivial = >=1 MutateTickReceived notification was checked against the delivery record; distinct = distinct trace hash",
        "C16" => "one case = one session with pre-spawn + mapping ops; non-trivial = >=1 registered pre-spawn pair was checked after its mapping arrived; distinct = distinct trace hash",
        _ => "",
    }
}

pub fn sample_json(o: &Outcome, fault: Option<Fault>) -> Value {
    let n = o.log.len();
    let head: Vec<&String> = o.log.iter().take(45).collect();
    json!({
        "seed": o.seed,
        "config": o.cfg,
        "fault": fault.map(|f| json!({"at_step": f.at, "kind": if f.kind == 0 { "client disconnect" } else { "server stop/start" }})),
        "trace_len": n,
        "trace_head": head,
    })
}
