//! Session simulator: one server app, 1..3 client apps, the harness is the messaging backend.
//!
//! Everything here drives the *real* library through its public backend API
//! (`RepliconServer`, `RepliconClient`, `ConnectedClient`) and records what the oracles in
//! `oracle.rs` need. No library internals are touched.
use crate::{comps::*, util::*, wire};
use bevy::prelude::*;
use bevy_replicon::{prelude::*, server::server_tick::ServerTick};
use bytes::Bytes;
use std::collections::{BTreeMap, BTreeSet, VecDeque};

/// Step mix and workload options of a run. One profile per property focus.
#[derive(Clone, Debug)]
pub struct Profile {
    pub name: &'static str,
    pub w_op: usize,
    pub w_tick: usize,
    pub w_frame: usize,
    pub w_cframe: usize,
    pub w_net: usize,
    pub w_conn: usize,
    pub w_auth: usize,
    pub w_prespawn: usize,
    pub w_restart: usize,
    pub w_sev: usize,
    pub w_cev: usize,
    pub w_hold: usize,
    pub w_junk: usize,
    pub steps: (usize, usize),
    /// Some(x) forces events on/off, None samples.
    pub events: Option<bool>,
    pub vis: Option<Vis>,
    pub auth: Option<Auth>,
    pub track: Option<bool>,
    pub rel: Option<bool>,
    /// probability (in 1/8) that a server op is a visibility op when the policy allows it
    pub vis_bias: usize,
    /// construct Blob sizes around the clients' maximum message sizes
    pub blob_boundary: bool,
    /// allow one client built with a different protocol
    pub mismatch: bool,
    /// structural ops are preferred over mutations
    pub struct_bias: usize,
    /// probability (in 1/8) that a server op is a relationship op
    pub rel_bias: usize,
    /// sample acknowledgement timeouts shorter than typical round trips
    pub short_timeouts: bool,
}

impl Profile {
    pub fn base(name: &'static str) -> Self {
        Profile {
            name,
            w_op: 8,
            w_tick: 2,
            w_frame: 2,
            w_cframe: 4,
            w_net: 5,
            w_conn: 1,
            w_auth: 1,
            w_prespawn: 1,
            w_restart: 0,
            w_sev: 0,
            w_cev: 0,
            w_hold: 1,
            w_junk: 0,
            steps: (150, 400),
            events: Some(false),
            vis: None,
            auth: None,
            track: None,
            rel: None,
            vis_bias: 1,
            blob_boundary: false,
            mismatch: false,
            struct_bias: 0,
            rel_bias: 0,
            short_timeouts: false,
        }
    }

    /// Profile of one case. C01 (convergence under *any* history/schedule) and C09 draw from
    /// several focus profiles so that their oracles also meet the regions the other profiles make dense.
    pub fn for_case(prop: &str, seed: u64) -> Self {
        match prop {
            "C01" => {
                let which = ["C01", "C01", "C02", "C03", "C08", "C10", "C11", "C16"][(seed % 8) as usize];
                let mut p = Self::for_prop(which);
                if which != "C01" {
                    p.w_restart = 1;
                }
                p
            }
            "C09" => {
                let which = ["C09", "C09", "C05", "C03", "C10", "C09"][(seed % 6) as usize];
                let mut p = Self::for_prop(which);
                p.w_conn = 0;
                p.w_restart = 0;
                p
            }
            _ => Self::for_prop(prop),
        }
    }

    pub fn for_prop(prop: &str) -> Self {
        let mut p = Profile::base("balanced");
        match prop {
            "C01" => {
                p.name = "C01-balanced";
                p.w_restart = 1;
                p.events = None;
                p.w_sev = 1;
                p.w_cev = 1;
            }
            "C02" => {
                p.name = "C02-schedule";
                p.blob_boundary = true;
                p.w_net = 8;
                p.w_hold = 2;
                p.w_cframe = 5;
                p.w_conn = 0;
                p.w_prespawn = 0;
            }
            "C03" => {
                p.name = "C03-structure";
                p.w_op = 10;
                p.w_frame = 5;
                p.w_tick = 2;
                p.struct_bias = 4;
                p.vis_bias = 2;
            }
            "C04" => {
                p.name = "C04-events";
                p.events = Some(true);
                p.w_sev = 6;
                p.w_cev = 0;
                p.w_op = 4;
                p.w_hold = 2;
                p.w_frame = 3;
                p.w_conn = 1;
                p.w_restart = 1;
                p.auth = Some(Auth::None);
            }
            "C05" => {
                p.name = "C05-events";
                p.events = Some(true);
                p.w_sev = 5;
                p.w_cev = 4;
                p.w_op = 3;
                p.w_conn = 2;
            }
            "C07" => {
                p.name = "C07-auth";
                p.events = Some(true);
                p.w_sev = 3;
                p.w_auth = 1;
                p.w_conn = 2;
                p.mismatch = true;
            }
            "C08" => {
                p.name = "C08-visibility";
                p.vis_bias = 4;
                p.w_frame = 4;
                p.w_conn = 1;
            }
            "C09" => {
                p.name = "C09-faults";
                p.events = None;
                p.w_sev = 2;
                p.w_cev = 2;
                p.w_conn = 0;
                p.w_restart = 0;
            }
            "C10" => {
                p.name = "C10-sizes";
                p.w_restart = 1;
                p.blob_boundary = true;
                p.rel = Some(true);
                p.rel_bias = 2;
                p.w_conn = 0;
                p.w_net = 6;
            }
            "C11" => {
                p.name = "C11-acks";
                p.short_timeouts = true;
                p.w_junk = 2;
                p.w_net = 7;
                p.w_conn = 0;
                p.w_tick = 4;
            }
            "C12" => {
                p.name = "C12-tracking";
                p.track = Some(true);
                p.blob_boundary = true;
                p.w_net = 8;
                p.w_tick = 4;
                p.w_conn = 1;
            }
            "C16" => {
                p.name = "C16-prespawn";
                p.w_prespawn = 5;
                p.w_frame = 4;
            }
            _ => {}
        }
        p
    }
}

/// How server events address clients (indices into `Sim::clients`).
#[derive(Clone, Copy, Debug, PartialEq)]
pub enum Mode {
    All,
    Except(Entity),
    Direct(Entity),
}

#[derive(Debug, Clone)]
pub struct SentS {
    pub kind: &'static str,
    pub seq: u32,
    /// (client index, session) that may receive it
    pub allowed: BTreeSet<(usize, u32)>,
    /// subset that must receive it if the session stays up
    pub must: BTreeSet<(usize, u32)>,
    pub got: BTreeSet<(usize, u32)>,
    pub server_ent: Option<Entity>,
    pub frame: usize,
}

#[derive(Debug, Clone)]
pub struct SentC {
    pub ci: usize,
    pub session: u32,
    pub kind: &'static str,
    pub seq: u32,
    pub client_ent: Option<Entity>,
    pub server_ent: Option<Entity>,
    pub handled: u32,
    pub handled_locally: u32,
    /// the client library handed it to the transport
    pub on_wire: bool,
    /// the transport dropped it (unreliable channel) or the session ended
    pub may_be_lost: bool,
}

pub const HALF: u32 = 1 << 31;

pub struct Cl {
    pub app: App,
    pub mismatch: bool,
    pub ent: Option<Entity>,
    pub authorized: bool,
    pub session: u32,
    pub max_size: usize,
    pub hold_upd: bool,
    pub s2c: BTreeMap<usize, VecDeque<Bytes>>,
    pub c2s: BTreeMap<usize, VecDeque<Bytes>>,
    /// (server entity, pre-spawned client entity, client entity despawned before arrival)
    pub pre: Vec<(Entity, Entity, bool)>,
    /// server entity -> tick of the update message that carries its pre-spawn mapping
    pub map_tick: BTreeMap<Entity, u32>,
    /// mappings registered since the last tick
    pub map_pending: Vec<Entity>,
    /// mutate index -> (tick, server frame it was built in, entities)
    /// mutate index -> messages sent with that index: (tick, server frame it was built in, entities,
    /// handed to the client by the transport). An acknowledgement only counts for messages the client got.
    pub inflight: BTreeMap<u16, Vec<(u32, usize, Vec<Entity>, bool)>>,
    pub used_idx: BTreeSet<u16>,
    pub acked_frame: BTreeMap<Entity, usize>,
    pub maybe_acked: BTreeMap<Entity, usize>,
    pub offperiod: BTreeMap<Entity, Vec<usize>>,
    /// structure visible to this client per tick
    pub x: BTreeMap<u32, BTreeMap<Entity, [bool; NK]>>,
    /// model of send-once components: value at the last full send, per tick
    pub xon: BTreeMap<u32, BTreeMap<Entity, u32>>,
    pub last_hist: BTreeMap<Entity, u32>,
    pub last_update_tick: u32,
    pub sent_per_tick: BTreeMap<u32, usize>,
    pub delivered_per_tick: BTreeMap<u32, usize>,
    pub fired: BTreeSet<u32>,
    pub completion_checked: BTreeSet<u32>,
    /// client entity -> ticks for which `EntityReplicated` was observed in this session
    pub conf_ticks: BTreeMap<Entity, BTreeSet<u32>>,
    /// mutate messages the network holds back for more than a 64-tick window: (release tick, message)
    pub stash: Vec<(u32, Bytes)>,
    /// tick of the last update message the server sent to this client in this session
    pub last_upd_tick_sent: u32,
    /// tick of the last update message the transport handed to this client in this session
    pub last_upd_tick_delivered: u32,
    /// (kind, seq) -> stamped tick decoded from the wire
    pub stamps: BTreeMap<(&'static str, u32), u32>,
    pub pending_disconnect: bool,
    pub first_update_checked: bool,
    /// F21 bookkeeping: messages with a tick in the upper half of `u32` handed to the client since
    /// its last frame (mutate / dependent event), and whether such a message was processed before
    /// any update message of the session (sticky per run).
    pub in_mut_high: bool,
    pub in_ev_high: bool,
    pub in_ev_zero: bool,
    pub in_mut_zero: bool,
    /// ticks (relative) of mutate messages with a raw tick >= 2^31 handed to the client since its last frame
    pub in_high_ticks: Vec<u32>,
    /// ticks whose confirmation met a tracker that was still at its initial tick 0 (sticky per session)
    pub f21_ignored_ticks: BTreeSet<u32>,
    /// raw (library) value of the last update tick the client reported / was handed
    pub last_update_raw: u32,
    pub last_upd_delivered_raw: u32,
    /// `ServerMutateTicks::last_tick` before the client's latest frame
    pub mt_last_before: u32,
    /// F22: this client was sent the despawn of an owner together with the removal of a relationship to it
    pub f22: bool,
    pub f21_mut: bool,
    pub f21_ev: bool,
    /// authorized at a moment when the server already replicated entities (late joiner)
    pub joined_late: bool,
    /// per mutate tick: update ticks the delivered messages of that tick wait for
    pub delivered_reqs: BTreeMap<u32, Vec<u32>>,
    /// mutate index -> update ticks required by the delivered messages that carried it
    pub delivered_idx_reqs: BTreeMap<u16, Vec<u32>>,
    /// every (server entity, pre-spawned client entity) pair registered in this session (never pruned)
    pub pre_ever: BTreeSet<(Entity, Entity)>,
}

pub struct Sim {
    pub seed: u64,
    pub rng: Rng,
    pub cfg: Cfg,
    pub prof: Profile,
    pub server: App,
    pub clients: Vec<Cl>,
    pub schan: Vec<Channel>,
    pub cchan: Vec<Channel>,
    pub s_base: usize,
    pub c_base: usize,

    pub ents: Vec<Entity>,
    pub vis_rec: BTreeMap<(usize, Entity), bool>,
    /// (client, entity) pairs that ever had an explicit setting in this session (survives despawn)
    pub ever_explicit: BTreeSet<(usize, Entity)>,
    /// (client, entity) pairs that were hidden when the entity died; their secrets stay secret
    pub dead_hidden: BTreeSet<(usize, Entity)>,
    /// F22 bookkeeping: (frame label, entity, former owner) of every removed `OwnedBy`
    pub detached: Vec<(usize, Entity, Entity)>,
    /// `World::clear_trackers` already called by the harness since the last server frame
    pub trackers_cleared_this_gap: bool,
    /// pre-spawn pairs to be registered a second time before the next server frame
    pub dup_mappings: Vec<(usize, u32, Entity, Entity)>,
    pub secrets: BTreeMap<Entity, Vec<[u8; 8]>>,
    pub unmarked_once: BTreeSet<Entity>,
    /// (client, session, server entity): mapped already, to be made visible to its owner later
    pub pending_show: Vec<(usize, u32, Entity)>,
    /// entities that were ever the target of a Link (a client may hold a placeholder for them)
    pub ever_linked: BTreeSet<Entity>,
    /// (client, server entity) pairs pre-mapped after the entity had been referenced
    pub repointed: BTreeSet<(usize, Entity)>,
    /// entities spawned without the replication marker that never carried it so far
    pub never_marked: BTreeSet<Entity>,
    pub snaps: BTreeMap<u32, BTreeMap<Entity, Snap>>,
    pub last_tick_seen: u32,
    pub tick_frame: BTreeMap<u32, usize>,
    pub ticked_this_frame: bool,
    /// like `ticked_this_frame`, but not consumed by `collect`
    pub last_frame_ticked: bool,
    pub frame_no: usize,
    pub server_frames_since_start: usize,
    pub server_frames_since_tick: usize,

    // per-entity op bookkeeping (server frame numbers)
    pub last_mut_frame: BTreeMap<Entity, usize>,
    pub last_any_change_frame: BTreeMap<Entity, usize>,
    pub last_struct_frame: BTreeMap<Entity, usize>,
    pub struct_frames: BTreeMap<Entity, Vec<usize>>,
    pub pe_mut_frames: BTreeMap<Entity, Vec<usize>>,
    pub on_added: BTreeSet<Entity>,
    pub remarked: BTreeSet<Entity>,

    // events
    pub seq: u32,
    pub pending_s: Vec<(&'static str, u32, Mode, Option<Entity>)>,
    pub sent_s: Vec<SentS>,
    pub sent_c: Vec<SentC>,
    pub s_last: BTreeMap<(usize, u32, &'static str), u32>,
    pub c_last: BTreeMap<(usize, u32, &'static str), u32>,

    pub after_fault: bool,
    pub quiescing: bool,
    pub log: Vec<String>,
    pub errs: Vec<Violation>,
    pub known: Vec<String>,
    pub obs: Obs,
}

thread_local! {
    /// Set while an `App::update()` of the code under test runs; the panic hook reads it to tell
    /// panics of the library (violations) from panics of the harness itself (inconclusive).
    pub static IN_UPDATE: std::cell::Cell<bool> = const { std::cell::Cell::new(false) };
}

pub fn update_app(app: &mut App) {
    IN_UPDATE.with(|f| f.set(true));
    app.update();
    IN_UPDATE.with(|f| f.set(false));
}

pub fn vis_default(v: Vis) -> bool {
    !matches!(v, Vis::Whitelist)
}

impl Sim {
    pub fn sample_cfg(seed: u64, prof: &Profile) -> Cfg {
        let mut r = Rng::new(seed ^ 0xC0F1_6000);
        let vis = prof.vis.unwrap_or([Vis::All, Vis::Blacklist, Vis::Whitelist][r.below(3)]);
        let pol = [Pol::Manual, Pol::Manual, Pol::EveryFrame, Pol::MaxRate][r.below(4)];
        let auth = prof.auth.unwrap_or([Auth::None, Auth::None, Auth::Protocol, Auth::Custom][r.below(4)]);
        let track = prof.track.unwrap_or(r.below(2) == 0);
        let rel = prof.rel.unwrap_or(r.below(2) == 0);
        let nclients = 1 + r.below(3);
        let split = r.below(3) == 0;
        let events = prof.events.unwrap_or(r.below(2) == 0);
        let timeout_ms = if prof.short_timeouts && r.below(2) == 0 { [30u64, 50, 80][r.below(3)] } else { 200 };
        Cfg { vis, pol, auth, track, rel, nclients, split, events, timeout_ms }
    }

    pub fn new(seed: u64, prof: Profile) -> Self {
        let cfg = Self::sample_cfg(seed, &prof);
        let mut rng = Rng::new(seed);
        let mut server = mk_app(&cfg, Role::Server);
        server.world_mut().resource_mut::<RepliconServer>().set_running(true);
        // a server that has been ticking for a while: tick varints of 1, 2, 3 and 4 bytes
        let bump: u32 = match rng.below(8) {
            0 => 100 + rng.below(40) as u32,
            1 => 16_350 + rng.below(60) as u32,
            2 => 2_097_100 + rng.below(100) as u32,
            _ => 0,
        };
        // rarely: a server about to cross, or already beyond, the middle of the tick range (R5b)
        let bump = match rng.below(24) {
            0 => HALF - 5 - rng.below(250) as u32,
            1 if rng.below(2) == 0 => HALF + rng.below(1 << 30) as u32,
            // ... or about to wrap around
            2 if rng.below(2) == 0 => u32::MAX - 5 - rng.below(250) as u32,
            _ => bump,
        };
        let bump = std::env::var("VERIF_BUMP").ok().and_then(|v| v.parse::<u32>().ok()).unwrap_or(bump);
        if bump > 0 {
            server.world_mut().resource_mut::<ServerTick>().increment_by(bump);
        }
        wire::set_origin(bump);
        let ch = server.world().resource::<RepliconChannels>().clone();
        let schan = ch.server_channels().to_vec();
        let cchan = ch.client_channels().to_vec();
        let proto = (cfg.auth == Auth::Protocol) as usize;
        let s_base = 2 + proto;
        let c_base = 1 + proto;
        if cfg.events {
            assert_eq!(schan.len(), s_base + S_KINDS.len(), "harness: unexpected server channel layout");
            assert_eq!(cchan.len(), c_base + C_KINDS.len(), "harness: unexpected client channel layout");
            assert!(matches!(schan[s_base + 1], Channel::Unordered));
            assert!(matches!(cchan[c_base + 1], Channel::Unreliable));
        }
        let mismatch_client = if prof.mismatch && cfg.auth == Auth::Protocol && rng.below(2) == 0 {
            Some(rng.below(cfg.nclients))
        } else {
            None
        };
        let clients = (0..cfg.nclients)
            .map(|i| {
                let mm = mismatch_client == Some(i);
                Cl {
                    app: mk_app(&cfg, if mm { Role::ClientMismatch((seed % 5) as u8) } else { Role::Client }),
                    mismatch: mm,
                    ent: None,
                    authorized: false,
                    session: 0,
                    max_size: 0,
                    hold_upd: false,
                    s2c: default(),
                    c2s: default(),
                    pre: vec![],
                    map_tick: default(),
                    map_pending: vec![],
                    inflight: default(),
                    used_idx: default(),
                    acked_frame: default(),
                    maybe_acked: default(),
                    offperiod: default(),
                    x: default(),
                    xon: default(),
                    last_hist: default(),
                    last_update_tick: 0,
                    sent_per_tick: default(),
                    delivered_per_tick: default(),
                    fired: default(),
                    completion_checked: default(),
                    conf_ticks: default(),
                    stash: vec![],
                    last_upd_tick_sent: 0,
                    last_upd_tick_delivered: 0,
                    stamps: default(),
                    pending_disconnect: false,
                    first_update_checked: false,
                    in_mut_high: false,
                    in_ev_high: false,
                    in_ev_zero: false,
                    in_mut_zero: false,
                    in_high_ticks: vec![],
                    f21_ignored_ticks: default(),
                    last_update_raw: 0,
                    last_upd_delivered_raw: 0,
                    mt_last_before: 0,
                    f22: false,
                    f21_mut: false,
                    f21_ev: false,
                    joined_late: false,
                    delivered_reqs: default(),
                    delivered_idx_reqs: default(),
                    pre_ever: default(),
                }
            })
            .collect();
        let mut sim = Sim {
            seed,
            rng,
            cfg,
            prof,
            server,
            clients,
            schan,
            cchan,
            s_base,
            c_base,
            ents: vec![],
            vis_rec: default(),
            ever_explicit: default(),
            dead_hidden: default(),
            detached: vec![],
            trackers_cleared_this_gap: false,
            dup_mappings: vec![],
            secrets: default(),
            unmarked_once: default(),
            pending_show: vec![],
            ever_linked: default(),
            repointed: default(),
            never_marked: default(),
            snaps: default(),
            last_tick_seen: 0,
            tick_frame: default(),
            ticked_this_frame: false,
            last_frame_ticked: false,
            frame_no: 0,
            server_frames_since_start: 0,
            server_frames_since_tick: 0,
            last_mut_frame: default(),
            last_any_change_frame: default(),
            last_struct_frame: default(),
            struct_frames: default(),
            pe_mut_frames: default(),
            on_added: default(),
            remarked: default(),
            seq: 0,
            pending_s: vec![],
            sent_s: vec![],
            sent_c: vec![],
            s_last: default(),
            c_last: default(),
            after_fault: false,
            quiescing: false,
            log: vec![],
            errs: vec![],
            known: vec![],
            obs: default(),
        };
        // a third of the runs: the clients' game logic puts replication markers on what it receives
        // (decided from the seed without touching the run's random stream)
        let mh = crate::util::fnv64(&[seed.to_le_bytes(), *b"markers!"].concat());
        if mh % 3 == 0 {
            for (i, c) in sim.clients.iter_mut().enumerate() {
                c.app.world_mut().resource_mut::<MarkerSalt>().0 = (mh | 1).wrapping_add(i as u64 * 2);
            }
            sim.obs.inc("runs_with_client_markers");
        }
        if sim.cfg.rel && sim.rng.below(3) == 0 {
            sim.prepopulate();
        }
        // rarely: a world so large that the state a joining client is sent exceeds 64 KiB
        // (decided from the seed without touching the run's random stream)
        if sim.cfg.vis == Vis::All && crate::util::fnv64(&[seed.to_le_bytes(), *b"bigworld"].concat()) % 300 == 0 {
            sim.big_world();
        }
        for i in 0..sim.clients.len() {
            sim.connect(i);
        }
        sim
    }

    /// Thousands of small replicated entities that exist before anybody connects.
    fn big_world(&mut self) {
        let n = 2400 + (self.seed % 400) as usize;
        for i in 0..n {
            let v = (i as u32).wrapping_mul(2654435761) % 100000;
            let id = self.server.world_mut().spawn((Replicated, Va(v), Blob(vec![(i % 251) as u8; 18 + i % 5]))).id();
            self.ents.push(id);
        }
        if self.server_frames_since_start == 0 {
            self.server_frame(false);
        }
        self.note(format!("big world: {n} replicated entities before the first connection"));
        self.obs.inc("worlds_with_more_than_64k_of_initial_state");
    }

    /// A world that already holds related entities (of both synchronized relationship types) when the
    /// server starts: the relationship graph is then built from a scan, not from the observers.
    fn prepopulate(&mut self) {
        let n = 3 + self.rng.below(5);
        let mut made: Vec<Entity> = vec![];
        for i in 0..n {
            let v = self.rng.below(100000) as u32;
            let blob = self.blob_val();
            let mut em = self.server.world_mut().spawn((Replicated, Va(v), Vb(v + 1)));
            if i % 2 == 0 {
                insert_kind(&mut em, K_BLOB, blob);
            }
            let id = em.id();
            self.ents.push(id);
            // acyclic by construction: relations only point to earlier entities
            if i > 0 {
                let t = made[self.rng.below(made.len())];
                match self.rng.below(4) {
                    0 => {
                        self.server.world_mut().entity_mut(id).insert(ChildOf(t));
                    }
                    1 => {
                        self.server.world_mut().entity_mut(id).insert(Follows(t));
                    }
                    2 => {
                        let t2 = made[self.rng.below(made.len())];
                        self.server.world_mut().entity_mut(id).insert((ChildOf(t), Follows(t2)));
                    }
                    _ => {}
                }
            }
            made.push(id);
        }
        // the server's first frame (graph scan) happens before anybody connects
        self.server_frame(false);
        self.note(format!("prepopulated {n} related entities before the server's first frame"));
        self.obs.inc("worlds_with_relations_before_server_start");
    }

    pub fn viol(&mut self, props: &[&'static str], msg: String) {
        let mut p: Vec<&'static str> = props.to_vec();
        if self.after_fault && p.iter().any(|x| matches!(*x, "C01" | "C02" | "C03")) && !p.contains(&"C09") {
            p.push("C09");
        }
        if let Some(sig) = self.f21_signature(&p, &msg) {
            let line = format!("{sig}: ({}) {msg}", p.join(","));
            if !self.known.contains(&line) {
                self.obs.inc(if sig.starts_with("owned") { "known_f22_hits" } else { "known_f21_hits" });
                // a session in that regime re-observes the finding every tick: keep a few per run
                if self.known.iter().filter(|k| k.starts_with(sig)).count() < 4 {
                    self.known.push(line);
                }
            }
            return;
        }
        // a persistent mismatch is re-observed after every frame: record it once
        if self.errs.iter().any(|e| e.msg == msg) {
            return;
        }
        self.errs.push(Violation { props: p, msg });
    }

    /// Known finding F21 (client's initial tick 0 ordered against server ticks >= 2^31): decided from
    /// the history of the client the violation names, not from the violation itself.
    fn f21_signature(&self, props: &[&'static str], msg: &str) -> Option<&'static str> {
        let at = msg.find("client")?;
        let digits: String = msg[at + 6..].chars().take_while(|c| c.is_ascii_digit()).collect();
        let ci: usize = digits.parse().ok()?;
        let c = self.clients.get(ci)?;
        let has = |xs: &[&str]| props.iter().any(|p| xs.contains(p));
        if c.f22 && has(&["C01", "C02", "C03", "C04", "C05", "C07", "C08", "C10", "C11", "C12", "C16"]) {
            return Some("owned-entity-detached-in-owners-despawn-tick");
        }
        if c.f21_mut && has(&["C01", "C02", "C10", "C11", "C12"]) {
            return Some("mutation-processed-before-first-update-at-upper-half-tick");
        }
        if c.f21_ev && has(&["C04", "C05"]) {
            return Some("event-ordered-against-initial-tick-at-upper-half-tick");
        }
        if has(&["C12"]) && self.cfg.track {
            // the tick the violation is about (relative in the message), else the server's current tick
            let about = msg
                .find("tick ")
                .and_then(|at| msg[at + 5..].split(|ch: char| !ch.is_ascii_digit()).next().and_then(|d| d.parse::<u32>().ok()))
                .map(wire::raw)
                .unwrap_or_else(|| self.server.world().resource::<ServerTick>().get());
            let about_rel = wire::rel(about);
            if about >= HALF && (c.mt_last_before == 0 || c.f21_ignored_ticks.contains(&about_rel)) {
                return Some("mutate-ticks-ignored-at-upper-half-tick");
            }
        }
        None
    }

    pub fn note(&mut self, s: String) {
        self.log.push(s);
    }

    // --------------------------------------------------------------------------------------------
    // lifecycle
    // --------------------------------------------------------------------------------------------

    pub fn reset_session_state(&mut self, i: usize) {
        let c = &mut self.clients[i];
        c.s2c.clear();
        c.c2s.clear();
        c.pre.clear();
        c.map_tick.clear();
        c.map_pending.clear();
        c.inflight.clear();
        c.used_idx.clear();
        c.acked_frame.clear();
        c.maybe_acked.clear();
        c.offperiod.clear();
        c.x.clear();
        c.xon.clear();
        c.last_hist.clear();
        c.last_update_tick = 0;
        c.sent_per_tick.clear();
        c.delivered_per_tick.clear();
        c.fired.clear();
        c.completion_checked.clear();
        c.conf_ticks.clear();
        c.stash.clear();
        c.last_upd_tick_sent = 0;
        c.last_upd_tick_delivered = 0;
        c.last_update_raw = 0;
        c.last_upd_delivered_raw = 0;
        c.stamps.clear();
        c.authorized = false;
        c.hold_upd = false;
        c.pending_disconnect = false;
        c.first_update_checked = false;
        c.in_mut_high = false;
        c.in_ev_high = false;
        c.in_ev_zero = false;
        c.in_mut_zero = false;
        c.in_high_ticks.clear();
        c.f21_ignored_ticks.clear();
        c.joined_late = false;
        c.delivered_reqs.clear();
        c.delivered_idx_reqs.clear();
        c.pre_ever.clear();
        self.repointed.retain(|(ci, _)| *ci != i);
        self.ever_explicit.retain(|(ci, _)| *ci != i);
        self.vis_rec.retain(|(ci, _), _| *ci != i);
        self.dead_hidden.retain(|(ci, _)| *ci != i);
        // events of the ended session may be lost
        let sess = self.clients[i].session;
        for s in &mut self.sent_c {
            if s.ci == i && s.session == sess {
                s.may_be_lost = true;
            }
        }
    }

    pub fn connect(&mut self, i: usize) {
        if self.clients[i].ent.is_some() {
            return;
        }
        let max_size = [60usize, 200, 1200][self.rng.below(3)];
        let ent = self.server.world_mut().spawn(ConnectedClient { max_size }).id();
        let c = &mut self.clients[i];
        c.ent = Some(ent);
        c.session += 1;
        c.max_size = max_size;
        c.authorized = false;
        // a transport with an asynchronous handshake reports Connecting for a frame or two first
        // (decided from the seed without touching the run's random stream)
        let h = crate::util::fnv64(&[self.seed.to_le_bytes(), (i as u64).to_le_bytes(), (c.session as u64).to_le_bytes()].concat());
        if h % 3 == 0 {
            c.app.world_mut().resource_mut::<RepliconClient>().set_status(RepliconClientStatus::Connecting);
            for _ in 0..1 + (h >> 8) % 2 {
                update_app(&mut c.app);
            }
            self.obs.inc("connects_through_connecting");
        }
        let c = &mut self.clients[i];
        c.app.world_mut().resource_mut::<RepliconClient>().set_status(RepliconClientStatus::Connected);
        let sess = c.session;
        if self.cfg.events {
            // allocated now, so that it is larger than everything sent before and smaller than everything
            // this session sends later (per-type order on the ordered channel)
            self.seq += 1;
            let seq = self.seq;
            c.app.world_mut().resource_mut::<Hello>().0 = seq;
            self.sent_c.push(SentC { ci: i, session: sess, kind: "CEv", seq, client_ent: None, server_ent: None, handled: 0, handled_locally: 0, on_wire: false, may_be_lost: false });
        }
        self.note(format!("connect client{i} as {ent} max={max_size} session={sess}"));
        self.obs.inc("connects");
        self.refresh_auth();
        // one client frame so that "just connected" systems run before the game emits anything
        self.client_frame(i);
    }

    /// Removes what a game would remove after a disconnect: the client's replicated entities.
    fn game_cleanup(&mut self, i: usize) {
        let c = &mut self.clients[i];
        let mut q = c.app.world_mut().query_filtered::<Entity, With<Replicated>>();
        let es: Vec<_> = q.iter(c.app.world()).collect();
        for e in es {
            if let Ok(em) = c.app.world_mut().get_entity_mut(e) {
                em.despawn();
            }
        }
    }

    pub fn disconnect(&mut self, i: usize) {
        let Some(ent) = self.clients[i].ent.take() else { return };
        self.server.world_mut().entity_mut(ent).despawn();
        if self.rng.below(4) == 0 {
            // a transport that notices the loss and tries to re-establish the link before it gives up:
            // Connected -> Connecting (one or two frames) -> Disconnected
            self.clients[i].app.world_mut().resource_mut::<RepliconClient>().set_status(RepliconClientStatus::Connecting);
            for _ in 0..1 + self.rng.below(2) {
                update_app(&mut self.clients[i].app);
            }
            self.obs.inc("disconnects_through_connecting");
        }
        self.clients[i]
            .app
            .world_mut()
            .resource_mut::<RepliconClient>()
            .set_status(RepliconClientStatus::Disconnected);
        self.reset_session_state(i);
        self.game_cleanup(i);
        self.note(format!("disconnect client{i}"));
        self.obs.inc("disconnects");
        // one frame on both sides so that resets run
        self.server_frame(false);
        self.client_frame(i);
        self.check_client_reset(i);
    }

    pub fn restart_server(&mut self) {
        if self.server_frames_since_start == 0 {
            return;
        }
        self.server_frames_since_start = 0;
        self.note("server stop".into());
        self.obs.inc("server_restarts");
        self.server.world_mut().resource_mut::<RepliconServer>().set_running(false);
        for i in 0..self.clients.len() {
            // the backend drops all connections
            if self.clients[i].ent.take().is_some() {
                self.clients[i]
                    .app
                    .world_mut()
                    .resource_mut::<RepliconClient>()
                    .set_status(RepliconClientStatus::Disconnected);
                self.reset_session_state(i);
                self.game_cleanup(i);
                self.client_frame(i);
                self.check_client_reset(i);
            }
        }
        self.vis_rec.clear();
        self.ever_explicit.clear();
        self.dead_hidden.clear();
        self.pending_s.clear();
        // events buffered on the server are dropped by the stop
        for s in &mut self.sent_s {
            s.must.clear();
        }
        self.frame_no += 1;
        update_app(&mut self.server);
        self.frame_no += 1;
        update_app(&mut self.server);
        let left: Vec<_> = self.server.world_mut().resource_mut::<RepliconServer>().drain_sent().collect();
        if !left.is_empty() {
            self.viol(&["C09"], format!("{} messages produced while the server is stopped", left.len()));
        }
        let mut q = self.server.world_mut().query_filtered::<Entity, With<ConnectedClient>>();
        let n = q.iter(self.server.world()).count();
        if n != 0 {
            self.viol(&["C09"], format!("{n} connected-client entities survive a server stop"));
        }
        let t = self.server.world().resource::<ServerTick>().get();
        if t != 0 {
            self.viol(&["C09"], format!("server tick {t} not reset by stop"));
        }
        // the restarted server counts from 0 again
        wire::set_origin(0);
        self.server.world_mut().resource_mut::<Log>().recs.clear();
        self.server.world_mut().resource_mut::<RepliconServer>().set_running(true);
        self.snaps.clear();
        self.tick_frame.clear();
        self.last_tick_seen = 0;
        self.note("server start".into());
        for i in 0..self.clients.len() {
            self.connect(i);
        }
    }

    pub fn refresh_auth(&mut self) {
        let populated = !self.alive_marked().is_empty();
        for c in &mut self.clients {
            let now = c
                .ent
                .is_some_and(|e| self.server.world().get_entity(e).is_ok_and(|w| w.contains::<AuthorizedClient>()));
            if now && !c.authorized && populated {
                c.joined_late = true;
            }
            c.authorized = now;
        }
    }

    pub fn authorize(&mut self, ci: usize) {
        if let Some(e) = self.clients[ci].ent {
            if !self.clients[ci].authorized && !self.clients[ci].mismatch {
                self.server.world_mut().entity_mut(e).insert(AuthorizedClient);
                self.clients[ci].authorized = true;
                if !self.alive_marked().is_empty() {
                    self.clients[ci].joined_late = true;
                }
                self.note(format!("authorize client{ci}"));
            }
        }
    }

    // --------------------------------------------------------------------------------------------
    // frames
    // --------------------------------------------------------------------------------------------

    pub fn snapshot(&self) -> BTreeMap<Entity, Snap> {
        let mut out = BTreeMap::new();
        for &e in &self.ents {
            if let Ok(w) = self.server.world().get_entity(e) {
                if w.contains::<Replicated>() {
                    out.insert(e, snap_of(&w));
                }
            }
        }
        out
    }

    /// The server's tick relative to the run's origin. While the raw tick rests on 0 (stepped over
    /// silently in a run that wraps, see `server_frame`) the previous tick is still the current one.
    fn server_tick_rel(&self) -> u32 {
        match self.server.world().resource::<ServerTick>().get() {
            0 => self.last_tick_seen,
            raw => wire::rel(raw),
        }
    }

    pub fn expected_visible(&self, ci: usize, e: Entity) -> bool {
        self.vis_rec.get(&(ci, e)).copied().unwrap_or(vis_default(self.cfg.vis))
    }

    pub fn server_frame(&mut self, tick: bool) {
        if tick && self.cfg.pol == Pol::Manual {
            let mut by = if self.rng.below(4) == 0 { 2 } else { 1 };
            if self.server.world().resource::<ServerTick>().get().wrapping_add(by) == 0 {
                by += 1;
            }
            self.server.world_mut().resource_mut::<ServerTick>().increment_by(by);
        }
        if self.cfg.pol != Pol::Manual && self.server.world().resource::<ServerTick>().get() == u32::MAX {
            // the raw tick 0 is the library's "no tick yet" value on the client side: a run that wraps
            // steps over it (silently, so that the step itself does not count as a tick)
            self.server.world_mut().resource_mut::<ServerTick>().bypass_change_detection().increment_by(1);
        }
        for (ci, sess, se, pre) in std::mem::take(&mut self.dup_mappings) {
            let c = &self.clients[ci];
            if c.session == sess && self.server.world().get_entity(se).is_ok() {
                if let Some(ce) = c.ent {
                    if let Some(mut map) = self.server.world_mut().get_mut::<ClientEntityMap>(ce) {
                        map.insert(se, pre);
                        self.obs.inc("op_prespawn_pair_registered_twice");
                    }
                }
            }
        }
        self.frame_no += 1;
        self.trackers_cleared_this_gap = false;
        // recipients of server events processed by this frame
        self.resolve_pending_server_events();
        update_app(&mut self.server);
        self.obs.inc("server_frames");
        self.refresh_auth();
        self.server_frames_since_start += 1;
        self.server_frames_since_tick += 1;
        let t = self.server_tick_rel();
        self.ticked_this_frame = t != self.last_tick_seen;
        self.last_frame_ticked = self.ticked_this_frame;
        self.note(format!("server_frame #{} tick_req={tick} now={t}", self.frame_no));
        if self.ticked_this_frame {
            self.obs.inc("ticks");
            if self.clients.iter().any(|c| c.ent.is_some() && !c.authorized) && !self.alive_marked().is_empty() {
                self.obs.inc("ticks_with_unauthorized_client");
            }
            if self.server_frames_since_tick > 1 {
                self.obs.inc("multi_frame_ticks");
            }
            self.server_frames_since_tick = 0;
            self.tick_frame.insert(t, self.frame_no);
            self.last_tick_seen = t;
            let snap = self.snapshot();
            for ci in 0..self.clients.len() {
                if self.clients[ci].ent.is_some() && self.clients[ci].authorized {
                    let pending = std::mem::take(&mut self.clients[ci].map_pending);
                    for se in pending {
                        self.clients[ci].map_tick.insert(se, t);
                    }
                    let x: BTreeMap<Entity, [bool; NK]> = snap
                        .iter()
                        .filter(|(e, _)| self.expected_visible(ci, **e))
                        .map(|(e, s)| (*e, snap_kinds(s)))
                        .collect();
                    // model of send-once components: refreshed on full sends only
                    let prev_x = self.clients[ci].x.iter().next_back().map(|(_, v)| v.clone());
                    let mut on_map = self.clients[ci].xon.iter().next_back().map(|(_, v)| v.clone()).unwrap_or_default();
                    on_map.retain(|e, _| x.get(e).is_some_and(|k| k[K_ONCE]));
                    for (e, kinds) in &x {
                        if !kinds[K_ONCE] {
                            continue;
                        }
                        let Some(Val::U(on)) = snap[e][K_ONCE].clone() else { continue };
                        let new_for_client = prev_x.as_ref().is_none_or(|p| !p.contains_key(e)) || self.remarked.contains(e);
                        if new_for_client || self.on_added.contains(e) || !on_map.contains_key(e) {
                            on_map.insert(*e, on);
                        }
                    }
                    self.clients[ci].xon.insert(t, on_map);
                    self.clients[ci].x.insert(t, x);
                }
            }
            self.snaps.insert(t, snap);
            self.on_added.clear();
            self.remarked.clear();
            self.check_is_visible("tick");
        }
        self.collect();
        self.check_server_log();
    }

    pub fn client_frame(&mut self, i: usize) {
        self.note(format!("client_frame {i}"));
        {
            // F21: the client orders its initial update tick 0 against the server's ticks; once those
            // are in the upper half of `u32`, what arrives before the first update message of the
            // session is treated as already covered
            let c = &mut self.clients[i];
            if c.last_update_tick == 0 && c.last_upd_tick_delivered == 0 {
                if c.in_mut_high && !c.f21_mut {
                    c.f21_mut = true;
                    self.obs.inc("f21_mutate_processed_before_first_update_at_high_tick");
                }
                if c.in_ev_high && !c.f21_ev {
                    c.f21_ev = true;
                    self.obs.inc("f21_event_processed_before_first_update_at_high_tick");
                }
            }
            // ... and an event stamped 0 (sent before the client's first update message) that is
            // processed after an update message with such a tick looks like an event from the future
            // (with tracking enabled the server sends mutate messages, carrying update tick 0, before the
            // client's first update message; such a message can still be in flight or buffered)
            let c = &mut self.clients[i];
            if c.in_mut_zero && (c.last_update_raw >= HALF || c.last_upd_delivered_raw >= HALF) && !c.f21_mut {
                c.f21_mut = true;
                self.obs.inc("f21_unstamped_mutate_processed_after_first_update_at_high_tick");
            }
            if c.in_ev_zero && (c.last_update_raw >= HALF || c.last_upd_delivered_raw >= HALF) && !c.f21_ev {
                c.f21_ev = true;
                self.obs.inc("f21_unstamped_event_processed_after_first_update_at_high_tick");
            }
            let c = &mut self.clients[i];
            c.mt_last_before = c
                .app
                .world()
                .get_resource::<bevy_replicon::client::server_mutate_ticks::ServerMutateTicks>()
                .map_or(0, |t| t.last_tick().get());
            // F21(c): a confirmation for a tick >= 2^31 that meets a tracker still at its initial tick 0 is
            // ignored; the tick can then never be reported, however late its other messages arrive
            if c.mt_last_before == 0 {
                let ticks = std::mem::take(&mut c.in_high_ticks);
                c.f21_ignored_ticks.extend(ticks);
            } else {
                c.in_high_ticks.clear();
            }
            c.in_mut_high = false;
            c.in_ev_high = false;
            c.in_ev_zero = false;
            c.in_mut_zero = false;
        }
        update_app(&mut self.clients[i].app);
        self.obs.inc("client_frames");
        self.collect();
        self.check_client(i);
        self.check_client_log(i);
    }

    /// Drains everything both sides produced and routes it into the per-channel queues.
    pub fn collect(&mut self) {
        let msgs: Vec<(Entity, usize, Bytes)> =
            self.server.world_mut().resource_mut::<RepliconServer>().drain_sent().collect();
        self.refresh_auth();
        self.wire_check(&msgs);
        self.ticked_this_frame = false;
        for (e, ch, m) in msgs {
            let Some(ci) = self.clients.iter().position(|c| c.ent == Some(e)) else {
                let independent = self.cfg.events
                    && ch >= self.s_base
                    && S_KINDS.get(ch - self.s_base).is_some_and(|k| s_kind_independent(k));
                if independent {
                    // O5: the game addressed an independent event to a client entity that is gone
                    self.obs.inc("o5_independent_event_for_removed_client");
                } else {
                    self.viol(&["C09"], format!("message on channel {ch} addressed to removed client {e}"));
                }
                continue;
            };
            self.obs.inc(&format!("s2c_msgs_ch{}", ch.min(2)));
            self.obs.add("s2c_bytes", m.len() as u64);
            if ch == 0 {
                self.obs.max("max_update_message_bytes", m.len() as u64);
            }
            self.monitor_outgoing(ci, ch, &m);
            self.clients[ci].s2c.entry(ch).or_default().push_back(m);
        }
        for ci in 0..self.clients.len() {
            let msgs: Vec<(usize, Bytes)> =
                self.clients[ci].app.world_mut().resource_mut::<RepliconClient>().drain_sent().collect();
            if self.clients[ci].ent.is_none() && !msgs.is_empty() {
                self.viol(
                    &["C09", "C13"],
                    format!("client{ci} put {} message(s) on the network while disconnected", msgs.len()),
                );
                continue;
            }
            for (ch, m) in msgs {
                self.obs.inc("c2s_msgs");
                if ch == 0 {
                    // C11: only applied mutate messages are acknowledged - one that still waits in the
                    // client's buffer for its update message must not be
                    let u = wire::rel(self.clients[ci].app.world().resource::<bevy_replicon::client::ServerUpdateTick>().get());
                    for idx in wire::acks(&m) {
                        self.obs.inc("c11_acks_checked_against_application");
                        let waiting = self.clients[ci].delivered_idx_reqs.get(&idx).and_then(|reqs| reqs.iter().copied().filter(|r| *r > u).max());
                        if let Some(r) = waiting {
                            if self.clients[ci].delivered_idx_reqs[&idx].len() == 1 {
                                self.viol(&["C11"], format!("client{ci} acknowledged mutate index {idx} whose message still waits for update tick {r} (client is at {u}) and has not been applied"));
                            }
                        }
                    }
                }
                self.mark_client_event_on_wire(ci, ch, &m);
                self.clients[ci].c2s.entry(ch).or_default().push_back(m);
            }
        }
    }

    // --------------------------------------------------------------------------------------------
    // network scheduler
    // --------------------------------------------------------------------------------------------

    fn deliver_s2c(&mut self, ci: usize, ch: usize, m: Bytes) {
        if ch == 1 {
            if let Some(mm) = wire::mutate_msg(&m, self.cfg.track) {
                *self.clients[ci].delivered_per_tick.entry(mm.tick).or_default() += 1;
                if self.last_tick_seen.saturating_sub(mm.tick) >= 64 {
                    self.obs.inc("mutate_messages_delivered_64_or_more_ticks_late");
                }
                if let Some(list) = self.clients[ci].inflight.get_mut(&mm.index) {
                    if let Some(m) = list.iter_mut().find(|x| x.0 == mm.tick && !x.3) {
                        m.3 = true;
                    }
                }
                self.clients[ci].delivered_reqs.entry(mm.tick).or_default().push(mm.update_tick);
                self.clients[ci].delivered_idx_reqs.entry(mm.index).or_default().push(mm.update_tick);
                if mm.raw_update_tick >= HALF {
                    self.clients[ci].in_mut_high = true;
                }
                if mm.raw_tick >= HALF {
                    self.clients[ci].in_high_ticks.push(mm.tick);
                }
                if mm.raw_update_tick == 0 {
                    self.clients[ci].in_mut_zero = true;
                }
                let u = self.clients[ci].last_update_tick;
                if mm.update_tick > u {
                    self.obs.inc("mutate_delivered_before_its_update");
                }
            }
        }
        if ch == 0 {
            if let Some((_, t, _)) = wire::update_header(&m) {
                self.clients[ci].last_upd_tick_delivered = t;
                self.clients[ci].last_upd_delivered_raw = wire::update_header_raw_tick(&m).unwrap_or(0);
            }
        }
        if self.cfg.events && ch >= self.s_base {
            if let Some(k) = S_KINDS.get(ch - self.s_base) {
                if !s_kind_independent(k) {
                    match wire::event_stamp_raw(&m) {
                        Some(t) if t >= HALF => self.clients[ci].in_ev_high = true,
                        Some(0) => self.clients[ci].in_ev_zero = true,
                        _ => {}
                    }
                }
            }
        }
        self.obs.inc("s2c_delivered");
        self.clients[ci].app.world_mut().resource_mut::<RepliconClient>().insert_received(ch, m);
    }

    fn deliver_c2s(&mut self, ci: usize, ch: usize, m: Bytes) {
        if ch == 0 {
            let frame_no = self.frame_no;
            let timeout_frames = (self.cfg.timeout_ms / FRAME_MS) as usize;
            let c = &mut self.clients[ci];
            for idx in wire::acks(&m) {
                let Some(list) = c.inflight.get_mut(&idx) else { continue };
                let got: Vec<(u32, usize, Vec<Entity>, bool)> = list.iter().filter(|m| m.3).cloned().collect();
                list.retain(|m| !m.3);
                if list.is_empty() {
                    c.inflight.remove(&idx);
                }
                for (_, f, ents, _) in got {
                    for e in ents {
                        // the server keeps an in-flight entry for at least `mutations_timeout`
                        if frame_no - f + 5 < timeout_frames {
                            let cur = c.acked_frame.entry(e).or_insert(0);
                            if f > *cur {
                                *cur = f;
                            }
                        }
                        let cur = c.maybe_acked.entry(e).or_insert(0);
                        if f > *cur {
                            *cur = f;
                        }
                    }
                }
            }
            self.obs.inc("acks_delivered");
        }
        let ent = self.clients[ci].ent.unwrap();
        self.server.world_mut().resource_mut::<RepliconServer>().insert_received(ent, ch, m);
    }

    /// One scheduler action on one (client, direction, channel) honouring the channel contract.
    pub fn net_op(&mut self) {
        let ci = self.rng.below(self.clients.len());
        if self.clients[ci].ent.is_none() {
            return;
        }
        let r = self.rng.next() as usize;
        // stragglers whose time has come
        let now = self.last_tick_seen;
        let due: Vec<Bytes> = {
            let st = &mut self.clients[ci].stash;
            let (d, keep): (Vec<_>, Vec<_>) = std::mem::take(st).into_iter().partition(|(rel, _)| *rel <= now);
            *st = keep;
            d.into_iter().map(|(_, m)| m).collect()
        };
        for m in due {
            self.obs.inc("stragglers_delivered");
            self.note(format!("deliver straggler s2c ch1 client{ci}"));
            self.deliver_s2c(ci, 1, m);
        }
        if self.rng.below(5) < 3 {
            let hold = self.clients[ci].hold_upd;
            let chans: Vec<usize> = self.clients[ci]
                .s2c
                .iter()
                .filter(|(c, q)| !q.is_empty() && !(hold && **c == 0))
                .map(|(c, _)| *c)
                .collect();
            if chans.is_empty() {
                return;
            }
            let ch = chans[self.rng.below(chans.len())];
            let kind = self.schan[ch];
            let burst = if ch == 0 { 1 + self.rng.below(3) } else { 1 };
            for _ in 0..burst {
                let q = self.clients[ci].s2c.get_mut(&ch).unwrap();
                if q.is_empty() {
                    break;
                }
                let m = match kind {
                    Channel::Ordered => q.pop_front().unwrap(),
                    Channel::Unordered => q.remove(r % q.len()).unwrap(),
                    Channel::Unreliable => {
                        let i = r % q.len();
                        if i != 0 {
                            self.obs.inc("reordered");
                        }
                        let m = q.remove(i).unwrap();
                        if ch == 1 && self.rng.below(30) == 0 {
                            // a straggler: this mutate message takes more than a whole 64-tick window
                            let release = self.last_tick_seen + 64 + self.rng.below(16) as u32;
                            self.clients[ci].stash.push((release, m));
                            self.obs.inc("mutate_messages_held_back_beyond_the_window");
                            return;
                        }
                        if self.rng.below(4) == 0 {
                            self.obs.inc("dropped_s2c");
                            self.note(format!("drop s2c ch{ch} client{ci}"));
                            return;
                        }
                        m
                    }
                };
                self.note(format!("deliver s2c ch{ch} client{ci}"));
                self.deliver_s2c(ci, ch, m);
            }
        } else {
            let chans: Vec<usize> =
                self.clients[ci].c2s.iter().filter(|(_, q)| !q.is_empty()).map(|(c, _)| *c).collect();
            if chans.is_empty() {
                return;
            }
            let ch = chans[self.rng.below(chans.len())];
            let kind = self.cchan[ch];
            let burst = 1 + self.rng.below(3);
            for _ in 0..burst {
                let q = self.clients[ci].c2s.get_mut(&ch).unwrap();
                if q.is_empty() {
                    break;
                }
                let m = match kind {
                    Channel::Ordered => q.pop_front().unwrap(),
                    Channel::Unordered => q.remove(r % q.len()).unwrap(),
                    Channel::Unreliable => {
                        let m = q.remove(r % q.len()).unwrap();
                        if self.rng.below(4) == 0 {
                            self.obs.inc("dropped_c2s");
                            self.mark_client_event_lost(ci, ch, &m);
                            self.note(format!("drop c2s ch{ch} client{ci}"));
                            return;
                        }
                        m
                    }
                };
                self.note(format!("deliver c2s ch{ch} client{ci}"));
                self.deliver_c2s(ci, ch, m);
            }
        }
    }

    /// Delivers everything queued for / from client `ci`, in order.
    pub fn flush_client(&mut self, ci: usize, s2c: bool, c2s: bool) {
        if self.clients[ci].ent.is_none() {
            return;
        }
        if s2c {
            for (_, m) in std::mem::take(&mut self.clients[ci].stash) {
                self.deliver_s2c(ci, 1, m);
            }
            let chans: Vec<usize> = self.clients[ci].s2c.keys().copied().collect();
            for ch in chans {
                while let Some(m) = self.clients[ci].s2c.get_mut(&ch).unwrap().pop_front() {
                    self.deliver_s2c(ci, ch, m);
                }
            }
        }
        if c2s {
            let chans: Vec<usize> = self.clients[ci].c2s.keys().copied().collect();
            for ch in chans {
                while let Some(m) = self.clients[ci].c2s.get_mut(&ch).unwrap().pop_front() {
                    self.deliver_c2s(ci, ch, m);
                }
            }
        }
    }

    pub fn junk_ack(&mut self) {
        let ci = self.rng.below(self.clients.len());
        let Some(ent) = self.clients[ci].ent else { return };
        if !self.clients[ci].authorized {
            // a connection that is not (yet) authorized writes to the acknowledgement channel: ignored,
            // and it must not disturb what the authorized clients queued behind it in the same frame
            let n = 1 + self.rng.below(6);
            let m = self.rng.bytes(n);
            self.note(format!("junk ack from unauthorized client{ci} {m:02x?}"));
            self.obs.inc("junk_acks_from_unauthorized");
            self.server.world_mut().resource_mut::<RepliconServer>().insert_received(ent, 0usize, m);
            return;
        }
        let n = 1 + self.rng.below(4);
        let mut m = vec![];
        for _ in 0..n {
            let c = &self.clients[ci];
            let max = c.used_idx.iter().next_back().copied().unwrap_or(0);
            let idx = if self.rng.below(2) == 0 && !c.used_idx.is_empty() {
                // an index that was used and is no longer in flight on our books
                let gone: Vec<u16> = c.used_idx.iter().copied().filter(|i| !c.inflight.contains_key(i)).collect();
                if gone.is_empty() { max.wrapping_add(1000) } else { gone[self.rng.below(gone.len())] }
            } else {
                // never used so far (runs are far shorter than the u16 wrap)
                max.wrapping_add(500 + self.rng.below(30000) as u16)
            };
            m.extend_from_slice(&idx.to_le_bytes());
        }
        if self.rng.below(4) == 0 {
            m.push(self.rng.next() as u8); // dangling half index
        }
        self.note(format!("junk ack client{ci} {m:02x?}"));
        self.obs.inc("junk_acks");
        self.server.world_mut().resource_mut::<RepliconServer>().insert_received(ent, 0usize, m);
    }

    // --------------------------------------------------------------------------------------------
    // server world operations
    // --------------------------------------------------------------------------------------------

    pub fn alive(&self) -> Vec<Entity> {
        self.ents.iter().copied().filter(|&e| self.server.world().get_entity(e).is_ok()).collect()
    }

    pub fn alive_marked(&self) -> Vec<Entity> {
        self.ents
            .iter()
            .copied()
            .filter(|&e| self.server.world().get_entity(e).is_ok_and(|w| w.contains::<Replicated>()))
            .collect()
    }

    fn mark_struct(&mut self, e: Entity) {
        self.last_struct_frame.insert(e, self.frame_no);
        self.struct_frames.entry(e).or_default().push(self.frame_no);
    }

    fn new_secret(&mut self, e: Entity) -> Val {
        let b = self.rng.bytes(8);
        let mut a = [0u8; 8];
        a.copy_from_slice(&b);
        self.secrets.entry(e).or_default().push(a);
        Val::B(b)
    }

    fn blob_val(&mut self) -> Val {
        let len = if self.prof.blob_boundary && self.rng.below(3) != 0 {
            let m = if let Some(c) = self.clients.iter().find(|c| c.ent.is_some()) {
                if self.rng.below(2) == 0 { c.max_size } else { [60usize, 200, 1200][self.rng.below(3)] }
            } else {
                200
            };
            let target = m.saturating_sub(14) + self.rng.below(12);
            match self.rng.below(4) {
                0 => target,
                1 => target / 2,
                2 => target * 3 / 5,
                _ => target.saturating_sub(self.rng.below(40)),
            }
        } else {
            let v = self.rng.below(1000);
            if v % 7 == 0 { 300 + self.rng.below(1200) } else { v % 150 }
        };
        let fill = self.rng.next() as u8;
        Val::B(vec![fill; len])
    }

    fn fresh_val(&mut self, e: Entity, k: usize) -> Option<Val> {
        let v = self.rng.below(100000) as u32;
        Some(match k {
            K_SEC => self.new_secret(e),
            K_BLOB => self.blob_val(),
            K_LINK | K_ATT => {
                if self.cfg.vis != Vis::All {
                    return None;
                }
                // mostly replicated targets; sometimes an entity that is not replicated (yet): the client
                // then keeps a bare placeholder for it (documented behaviour, observation O3)
                let pool = if self.rng.below(4) == 0 { self.alive() } else { self.alive_marked() };
                let repl: Vec<Entity> = pool.into_iter().filter(|t| *t != e).collect();
                if repl.is_empty() {
                    return None;
                }
                let t = repl[self.rng.below(repl.len())];
                self.ever_linked.insert(t);
                Val::E(t)
            }
            K_OWN => {
                // linked relationship (R4): only without visibility settings, between marked-or-not
                // sources and marked owners, kept apart from the (unreplicated) ChildOf hierarchy, acyclic
                if self.cfg.vis != Vis::All {
                    return None;
                }
                let w = self.server.world();
                let in_hierarchy = |x: Entity| w.get_entity(x).is_ok_and(|r| r.contains::<ChildOf>() || r.contains::<Children>());
                if in_hierarchy(e) || self.clients.iter().any(|c| c.ent.is_some() && !c.authorized && c.map_pending.contains(&e)) {
                    return None;
                }
                let cands: Vec<Entity> = self
                    .alive_marked()
                    .into_iter()
                    .filter(|t| *t != e && !in_hierarchy(*t))
                    .filter(|t| {
                        // no cycle: walking up from the owner never reaches `e`
                        let mut cur = Some(*t);
                        let mut n = 0;
                        while let Some(c) = cur {
                            if c == e || n > 64 {
                                return false;
                            }
                            n += 1;
                            cur = w.get::<OwnedBy>(c).map(|o| o.0);
                        }
                        true
                    })
                    .collect();
                if cands.is_empty() {
                    return None;
                }
                let t = cands[self.rng.below(cands.len())];
                self.ever_linked.insert(t);
                Val::E(t)
            }
            _ => Val::U(v),
        })
    }

    /// R1: references never dangle - remove links to `target` (and to its descendants, because
    /// despawn is recursive) before the target disappears.
    fn unlink_targets(&mut self, target: Entity) {
        let mut kids: Vec<Entity> =
            self.server.world().get::<Children>(target).map(|c| c.iter().collect()).unwrap_or_default();
        kids.extend(self.server.world().get::<Owns>(target).map(|c| c.iter().collect::<Vec<_>>()).unwrap_or_default());
        for k in kids {
            self.unlink_targets(k);
        }
        let ents = self.ents.clone();
        for e in ents {
            if let Ok(mut em) = self.server.world_mut().get_entity_mut(e) {
                let link = em.get::<Link>().is_some_and(|l| l.0 == target);
                let att = em.get::<AttachedTo>().is_some_and(|l| l.0 == target);
                if link {
                    em.remove::<Link>();
                }
                if att {
                    em.remove::<AttachedTo>();
                }
                if link || att {
                    self.mark_struct(e);
                }
            }
        }
    }

    /// Known finding F22: despawn records are applied before removal records. If an entity was
    /// detached from its owner (linked, replicated relationship) in the tick window in which the
    /// owner goes away, the client's mirrored relationship still takes it along, and the removal
    /// record that follows then makes the client reject the rest of the update message.
    fn note_f22(&mut self, root: Entity) {
        let last_tick_frame = self.tick_frame.values().copied().max().unwrap_or(0);
        let mut dying = BTreeSet::new();
        let mut stack = vec![root];
        while let Some(x) = stack.pop() {
            if !dying.insert(x) {
                continue;
            }
            if let Some(c) = self.server.world().get::<Owns>(x) {
                stack.extend(c.iter());
            }
            if let Some(c) = self.server.world().get::<Children>(x) {
                stack.extend(c.iter());
            }
        }
        let hit = self
            .detached
            .iter()
            .any(|(f, o, owner)| *f >= last_tick_frame && dying.contains(owner) && !dying.contains(o) && self.server.world().get_entity(*o).is_ok());
        if hit {
            self.obs.inc("f22_owner_despawned_in_the_tick_of_a_detach");
            for c in &mut self.clients {
                if c.ent.is_some() {
                    c.f22 = true;
                }
            }
        }
    }

    fn forget_dead(&mut self, root: Entity) {
        // despawn is recursive over Children
        let mut stack = vec![root];
        let mut dead = vec![];
        while let Some(e) = stack.pop() {
            dead.push(e);
            if let Some(c) = self.server.world().get::<Owns>(e) {
                stack.extend(c.iter());
            }
            if let Some(c) = self.server.world().get::<Children>(e) {
                stack.extend(c.iter());
            }
        }
        for e in dead {
            for ci in 0..self.clients.len() {
                if self.clients[ci].ent.is_some() && !self.expected_visible(ci, e) {
                    self.dead_hidden.insert((ci, e));
                }
            }
            self.vis_rec.retain(|(_, x), _| *x != e);
        }
    }

    pub fn server_op(&mut self) {
        let alive = self.alive();
        let pick = if alive.is_empty() { None } else { Some(alive[self.rng.below(alive.len())]) };
        let vis_ok = self.cfg.vis != Vis::All;
        // op selection
        let mut k = self.rng.below(25);
        if vis_ok && self.rng.below(8) < self.prof.vis_bias {
            k = 9;
        } else if self.prof.struct_bias > 0 && self.rng.below(8) < self.prof.struct_bias {
            k = [0, 2, 3, 4, 4, 3, 15, 16][self.rng.below(8)];
        } else if self.cfg.rel && self.prof.rel_bias > 0 && self.rng.below(8) < self.prof.rel_bias {
            k = [13, 21, 13, 21, 14, 22, 23, 24][self.rng.below(8)];
        }
        if k == 24 {
            // the marker inserted again on an entity that already replicates (e.g. a re-applied bundle)
            if let Some(e) = pick.filter(|e| self.server.world().entity(*e).contains::<Replicated>()) {
                self.server.world_mut().entity_mut(e).insert(Replicated);
                self.note(format!("reinsert marker {e}"));
                self.obs.inc("op_marker_reinsert");
            }
            return;
        }
        if k == 23 {
            // marker and relationship inserted in ONE bundle (both graph observers fire)
            if let Some(p) = pick.filter(|_| self.cfg.rel) {
                let v = self.rng.below(100000) as u32;
                let id = if self.rng.below(2) == 0 {
                    self.server.world_mut().spawn((Replicated, Va(v), ChildOf(p))).id()
                } else {
                    self.server.world_mut().spawn((Replicated, Va(v), Follows(p))).id()
                };
                self.ents.push(id);
                if self.rng.below(2) == 0 {
                    let b = self.blob_val();
                    let mut em = self.server.world_mut().entity_mut(id);
                    insert_kind(&mut em, K_BLOB, b);
                }
                self.note(format!("spawn {id} marked=true with relation to {p} in one bundle"));
                self.obs.inc("op_spawn_related_bundle");
            }
            return;
        }
        if alive.len() > 20 && k < 2 {
            k = 2;
        }
        let Some(e) = pick.filter(|_| k >= 2) else {
            // spawn
            let marked = self.rng.below(6) != 0;
            let id = self.server.world_mut().spawn_empty().id();
            self.ents.push(id);
            let mut kinds = vec![];
            let r = self.rng.next();
            for kk in 0..NK {
                let p = match kk {
                    K_VA => 2,
                    K_VB => 3,
                    K_SEC => 3,
                    K_BLOB => 5,
                    K_IMM => 7,
                    K_ONCE => 4,
                    K_PER => 4,
                    _ => 9,
                };
                if (r >> (kk * 4)) % p == 0 {
                    if let Some(v) = self.fresh_val(id, kk) {
                        let mut em = self.server.world_mut().entity_mut(id);
                        insert_kind(&mut em, kk, v);
                        kinds.push(KIND_NAMES[kk]);
                    }
                }
            }
            if marked {
                self.server.world_mut().entity_mut(id).insert(Replicated);
            } else {
                self.never_marked.insert(id);
            }
            self.note(format!("spawn {id} marked={marked} kinds={kinds:?}"));
            self.obs.inc("op_spawn");
            return;
        };
        let marked = self.server.world().entity(e).contains::<Replicated>();
        if self.pending_show.iter().any(|(_, _, x)| *x == e) && matches!(k, 2 | 8 | 9 | 10 | 13) {
            // R5: an early-mapped entity stays alive, marked and untouched by other visibility ops until shown
            return;
        }
        if matches!(k, 2 | 8 | 13) && self.clients.iter().any(|c| c.ent.is_some() && !c.authorized && c.map_pending.contains(&e)) {
            // R5: a mapping prepared for a connection that is not authorized yet cannot be withdrawn;
            // its server entity stays alive (also: gets no parent that could take it along) and marked
            // until the connection is authorized or gone
            return;
        }
        match k {
            2 => {
                self.note_f22(e);
                self.unlink_targets(e);
                self.forget_dead(e);
                self.server.world_mut().entity_mut(e).despawn();
                self.note(format!("despawn {e}"));
                self.obs.inc("op_despawn");
            }
            3 | 15 => {
                // insert (new or over existing)
                let kk = if k == 15 { [K_ONCE, K_PER][self.rng.below(2)] } else { self.rng.below(NK) };
                let Some(v) = self.fresh_val(e, kk) else { return };
                let had = has_kind(&self.server.world().entity(e), kk);
                if (kk == K_ATT || kk == K_OWN) && had {
                    // O8: re-targeting a replicated relationship travels in an unreliable mutate message; if the
                    // old target disappears first, the client's own relationship hook removes the component
                    // until the mutation arrives. The workload only attaches and detaches (both reliable).
                    return;
                }
                if kk == K_ONCE && !had {
                    self.on_added.insert(e);
                }
                if kk == K_PER && had {
                    self.pe_mut_frames.entry(e).or_default().push(self.frame_no);
                }
                let s = v.short();
                let mut em = self.server.world_mut().entity_mut(e);
                insert_kind(&mut em, kk, v);
                self.mark_struct(e);
                self.note(format!("insert {e} {}={s} had={had}", KIND_NAMES[kk]));
                self.obs.inc("op_insert");
            }
            4 | 16 => {
                let kk = if k == 16 { [K_ONCE, K_PER][self.rng.below(2)] } else { self.rng.below(NK) };
                if kk == K_OWN {
                    if let Some(o) = self.server.world().get::<OwnedBy>(e) {
                        self.detached.push((self.frame_no, e, o.0));
                    }
                }
                let mut em = self.server.world_mut().entity_mut(e);
                remove_kind(&mut em, kk);
                self.mark_struct(e);
                // a removal performed late in the previous frame (after the replication systems, e.g. in
                // `Last`): its removal event has already been through one end-of-frame tracker update
                // when the server looks at it (decided from the seed without touching the random stream)
                let h = crate::util::fnv64(&[self.seed.to_le_bytes(), (self.frame_no as u64).to_le_bytes(), e.to_bits().to_le_bytes()].concat());
                if h % 4 == 0 && !self.trackers_cleared_this_gap {
                    self.trackers_cleared_this_gap = true;
                    self.server.world_mut().clear_trackers();
                    self.obs.inc("op_remove_late_in_previous_frame");
                }
                self.note(format!("remove {e} {}", KIND_NAMES[kk]));
                self.obs.inc("op_remove");
            }
            5 | 6 | 7 | 12 | 19 | 20 => {
                // mutate 1..n continuously replicated components
                let mut any = false;
                let mut what = vec![];
                let r = self.rng.next();
                for (i, kk) in [K_VA, K_VB, K_SEC, K_BLOB, K_IMM].into_iter().enumerate() {
                    let go = if i == 0 { true } else { (r >> (i * 3)) % (i as u64 + 1) == 0 };
                    if !go || !has_kind(&self.server.world().entity(e), kk) {
                        continue;
                    }
                    let v = self.fresh_val(e, kk).unwrap();
                    let s = v.short();
                    let mut em = self.server.world_mut().entity_mut(e);
                    if mutate_kind(&mut em, kk, v) {
                        any = true;
                        what.push(format!("{}={s}", KIND_NAMES[kk]));
                    }
                }
                if any {
                    self.last_mut_frame.insert(e, self.frame_no);
                    self.obs.inc("op_mutate");
                }
                self.note(format!("mutate {e} {what:?}"));
            }
            8 if self.cfg.vis == Vis::All => {
                // marker toggle (R2: only where no explicit visibility settings exist)
                if marked && self.server.world().entity(e).contains::<Owns>() {
                    // R4: un-marking an owner despawns it on the clients only, and their mirrored
                    // relationship would take the still replicated owned entities along
                    return;
                }
                if marked {
                    // (for the clients the end of replication is a despawn of their copy)
                    self.note_f22(e);
                    self.unlink_targets(e);
                    self.unmarked_once.insert(e);
                    self.server.world_mut().entity_mut(e).remove::<Replicated>();
                } else {
                    self.server.world_mut().entity_mut(e).insert(Replicated);
                    self.never_marked.remove(&e);
                    self.remarked.insert(e);
                }
                self.mark_struct(e);
                self.note(format!("toggle marker {e} now={}", !marked));
                self.obs.inc("op_marker_toggle");
            }
            8 if !marked => {
                // first-time marking of an entity spawned unmarked
                self.server.world_mut().entity_mut(e).insert(Replicated);
                self.never_marked.remove(&e);
                self.remarked.insert(e);
                self.mark_struct(e);
                self.note(format!("mark {e}"));
                self.obs.inc("op_mark");
            }
            9 | 10 if vis_ok => {
                let ci = self.rng.below(self.clients.len());
                let ok = self.clients[ci].ent.is_some()
                    && self.clients[ci].authorized
                    && !self.clients[ci].pre.iter().any(|(se, _, _)| *se == e);
                if ok {
                    let ce = self.clients[ci].ent.unwrap();
                    let n = 1 + if self.rng.below(4) == 0 { self.rng.below(3) } else { 0 };
                    for _ in 0..n {
                        let val = self.rng.below(2) == 0;
                        self.server.world_mut().get_mut::<ClientVisibility>(ce).unwrap().set_visibility(e, val);
                        self.vis_rec.insert((ci, e), val);
                        self.ever_explicit.insert((ci, e));
                        self.note(format!("set_vis client{ci} {e} {val}"));
                        self.obs.inc("op_set_visibility");
                    }
                    self.clients[ci].acked_frame.remove(&e);
                    self.mark_struct(e);
                    self.check_is_visible("set_visibility");
                }
            }
            11 => {
                let mut kk = match self.rng.below(6) {
                    0 | 1 => K_ATT,
                    2 => K_OWN,
                    _ => K_LINK,
                };
                if kk != K_LINK && has_kind(&self.server.world().entity(e), kk) {
                    kk = K_LINK;
                }
                if let Some(v) = self.fresh_val(e, kk) {
                    let s = v.short();
                    let mut em = self.server.world_mut().entity_mut(e);
                    insert_kind(&mut em, kk, v);
                    self.mark_struct(e);
                    self.note(format!("{} {e} -> {s}", ["link", "attach", "own"][kk - K_LINK]));
                    if kk == K_OWN {
                        self.obs.inc("op_own");
                    }
                    self.obs.inc("op_link");
                }
            }
            13 | 21 if self.cfg.rel => {
                let others: Vec<Entity> = self.alive().into_iter().filter(|x| *x != e).collect();
                if others.is_empty() {
                    return;
                }
                let p = others[self.rng.below(others.len())];
                if k == 13 {
                    // the two linked hierarchies (ChildOf, OwnedBy) stay disjoint
                    let w = self.server.world();
                    if [e, p].iter().any(|x| w.entity(*x).contains::<OwnedBy>() || w.entity(*x).contains::<Owns>()) {
                        return;
                    }
                    // avoid cycles: only parent to an entity that is not a descendant
                    let mut cur = Some(p);
                    while let Some(c) = cur {
                        if c == e {
                            return;
                        }
                        cur = self.server.world().get::<ChildOf>(c).map(|c| c.parent());
                    }
                    self.server.world_mut().entity_mut(e).insert(ChildOf(p));
                    self.note(format!("parent {e} -> {p}"));
                } else {
                    self.server.world_mut().entity_mut(e).insert(Follows(p));
                    self.note(format!("follow {e} -> {p}"));
                }
                self.obs.inc("op_relate");
            }
            14 | 22 if self.cfg.rel => {
                if k == 14 {
                    self.server.world_mut().entity_mut(e).remove::<ChildOf>();
                } else {
                    self.server.world_mut().entity_mut(e).remove::<Follows>();
                }
                self.note(format!("unrelate {e} ({})", if k == 14 { "ChildOf" } else { "Follows" }));
                self.obs.inc("op_unrelate");
            }
            17 => {
                let v = self.rng.below(100000) as u32;
                let mut em = self.server.world_mut().entity_mut(e);
                if mutate_kind(&mut em, K_PER, Val::U(v)) {
                    self.last_any_change_frame.insert(e, self.frame_no);
                    self.pe_mut_frames.entry(e).or_default().push(self.frame_no);
                    self.note(format!("mutate periodic {e} v={v}"));
                    self.obs.inc("op_mutate_periodic");
                }
            }
            18 => {
                let v = self.rng.below(100000) as u32;
                let mut em = self.server.world_mut().entity_mut(e);
                if mutate_kind(&mut em, K_ONCE, Val::U(v)) {
                    self.note(format!("mutate once {e} v={v}"));
                    self.obs.inc("op_mutate_once");
                }
            }
            _ => {}
        }
    }

    pub fn prespawn(&mut self) {
        let ci = self.rng.below(self.clients.len());
        let Some(ce) = self.clients[ci].ent else { return };
        let unauthorized = !self.clients[ci].authorized;
        if unauthorized {
            // game-side authorization: the game may prepare the mappings of a connection it has not
            // authorized yet (ClientEntityMap is an ordinary component); they travel with the first
            // replication after authorization
            if self.cfg.auth != Auth::Custom || self.clients[ci].mismatch || self.cfg.vis == Vis::Whitelist {
                return;
            }
            if self.server.world().get::<ClientEntityMap>(ce).is_none() {
                self.server.world_mut().entity_mut(ce).insert(ClientEntityMap::default());
            }
            self.obs.inc("op_prespawn_before_authorization");
        }
        let v = self.rng.below(100000) as u32;
        let pre = self.clients[ci].app.world_mut().spawn_empty().id();
        // the server entity: usually fresh; sometimes an existing entity that starts replicating now
        // (it may already be referenced by a Link, i.e. the client may hold a placeholder for it)
        let unmarked: Vec<Entity> = self
            .alive()
            .into_iter()
            .filter(|e| !self.server.world().entity(*e).contains::<Replicated>() && self.never_marked.contains(e))
            .collect();
        let adopt = self.cfg.vis == Vis::All && !unauthorized && !unmarked.is_empty() && self.rng.below(3) == 0;
        let se = if adopt {
            let se = unmarked[self.rng.below(unmarked.len())];
            self.server.world_mut().entity_mut(se).insert(Replicated);
            self.never_marked.remove(&se);
            if self.ever_linked.contains(&se) {
                // the client may already hold a placeholder for it: the mapping re-points the entity map
                // and earlier references stay on the superseded placeholder (known finding F20)
                self.repointed.insert((ci, se));
                self.obs.inc("op_prespawn_adopts_referenced_entity");
            }
            self.unmarked_once.remove(&se);
            self.remarked.insert(se);
            self.mark_struct(se);
            se
        } else {
            let se = self.server.world_mut().spawn((Replicated, Va(v))).id();
            self.ents.push(se);
            if self.rng.below(3) == 0 {
                let s = self.new_secret(se);
                let mut em = self.server.world_mut().entity_mut(se);
                insert_kind(&mut em, K_SEC, s);
            }
            se
        };
        self.server.world_mut().get_mut::<ClientEntityMap>(ce).unwrap().insert(se, pre);
        // a confirmation that is processed twice (e.g. the client's request was re-sent): the same pair
        // is registered again, at once or a server frame later
        match self.rng.below(8) {
            0 => {
                self.server.world_mut().get_mut::<ClientEntityMap>(ce).unwrap().insert(se, pre);
                self.obs.inc("op_prespawn_pair_registered_twice");
            }
            1 => {
                let sess = self.clients[ci].session;
                self.dup_mappings.push((ci, sess, se, pre));
            }
            _ => {}
        }
        // C16: the mapping is registered "no later than the tick in which the entity first becomes
        // visible": either in that tick (R5) or in an earlier one (the entity is shown later)
        let early = self.cfg.vis != Vis::All && !unauthorized && self.rng.below(2) == 0;
        if early {
            if self.cfg.vis == Vis::Blacklist {
                self.server.world_mut().get_mut::<ClientVisibility>(ce).unwrap().set_visibility(se, false);
                self.vis_rec.insert((ci, se), false);
                self.ever_explicit.insert((ci, se));
            }
            let sess = self.clients[ci].session;
            self.pending_show.push((ci, sess, se));
        } else if self.cfg.vis == Vis::Whitelist {
            self.server.world_mut().get_mut::<ClientVisibility>(ce).unwrap().set_visibility(se, true);
            self.vis_rec.insert((ci, se), true);
            self.ever_explicit.insert((ci, se));
        }
        // sometimes the client despawns its entity before the mapping arrives
        let kill = self.rng.below(5) == 0;
        if kill {
            self.clients[ci].app.world_mut().entity_mut(pre).despawn();
        }
        self.clients[ci].pre.push((se, pre, kill));
        self.clients[ci].map_pending.push(se);
        self.clients[ci].pre_ever.insert((se, pre));
        self.note(format!("prespawn client{ci} {se} -> {pre} killed={kill} adopt_existing={adopt} shown_later={early}"));
        self.obs.inc("op_prespawn");
        if early {
            self.obs.inc("op_prespawn_mapped_before_visible");
        }
        if adopt {
            self.obs.inc("op_prespawn_adopts_existing_entity");
        }
    }

    /// Makes one early-mapped entity visible to its owner.
    pub fn show_pending(&mut self) {
        if self.pending_show.is_empty() {
            return;
        }
        let i = self.rng.below(self.pending_show.len());
        let (ci, sess, se) = self.pending_show.remove(i);
        let Some(ce) = self.clients[ci].ent else { return };
        if self.clients[ci].session != sess || !self.clients[ci].authorized || self.server.world().get_entity(se).is_err() {
            return;
        }
        self.server.world_mut().get_mut::<ClientVisibility>(ce).unwrap().set_visibility(se, true);
        self.vis_rec.insert((ci, se), true);
        self.ever_explicit.insert((ci, se));
        self.mark_struct(se);
        self.note(format!("set_vis client{ci} {se} true (early-mapped entity shown)"));
        self.obs.inc("op_set_visibility");
        self.check_is_visible("set_visibility");
    }

    // --------------------------------------------------------------------------------------------
    // run
    // --------------------------------------------------------------------------------------------

    pub fn step(&mut self) {
        let p = self.prof.clone();
        let ev = self.cfg.events;
        let weights = [
            p.w_op,
            p.w_tick,
            p.w_frame,
            p.w_cframe,
            p.w_net,
            p.w_conn,
            if self.cfg.auth == Auth::Custom { p.w_auth } else { 0 },
            p.w_prespawn,
            p.w_restart,
            if ev { p.w_sev } else { 0 },
            if ev { p.w_cev } else { 0 },
            p.w_hold,
            p.w_junk,
        ];
        let total: usize = weights.iter().sum();
        let mut r = self.rng.below(total);
        let mut which = 0;
        for (i, w) in weights.iter().enumerate() {
            if r < *w {
                which = i;
                break;
            }
            r -= *w;
        }
        match which {
            0 => self.server_op(),
            1 => self.server_frame(true),
            2 => self.server_frame(false),
            3 => {
                let ci = self.rng.below(self.clients.len());
                self.client_frame(ci)
            }
            4 => self.net_op(),
            5 => {
                if self.rng.below(4) == 0 {
                    let ci = self.rng.below(self.clients.len());
                    if self.clients[ci].ent.is_some() {
                        self.disconnect(ci);
                    } else {
                        self.connect(ci);
                    }
                }
            }
            6 => {
                let ci = self.rng.below(self.clients.len());
                self.authorize(ci)
            }
            7 => self.prespawn(),
            8 => {
                if self.rng.below(25) == 0 {
                    self.restart_server()
                }
            }
            9 => self.emit_server(),
            10 => self.emit_client(),
            11 => {
                let ci = self.rng.below(self.clients.len());
                let c = &mut self.clients[ci];
                c.hold_upd = !c.hold_upd && self.rng.below(2) == 0;
                let h = c.hold_upd;
                self.note(format!("hold updates client{ci} = {h}"));
                if h {
                    self.obs.inc("holds");
                }
            }
            _ => self.junk_ack(),
        }
        if !self.pending_show.is_empty() && self.rng.below(8) == 0 {
            self.show_pending();
        }
        self.service_disconnect_requests();
    }

    /// A backend honours `DisconnectRequest` after flushing what is pending for that client.
    pub fn service_disconnect_requests(&mut self) {
        for ci in 0..self.clients.len() {
            if self.clients[ci].pending_disconnect && self.clients[ci].ent.is_some() {
                self.flush_client(ci, true, false);
                self.client_frame(ci);
                let seen = self.clients[ci].app.world().resource::<Log>().protocol_mismatch;
                if self.clients[ci].mismatch && seen == 0 {
                    self.viol(
                        &["C07", "C14"],
                        format!("client{ci} with a different protocol was not notified of the mismatch before the disconnect"),
                    );
                }
                self.obs.inc("mismatch_disconnects");
                self.clients[ci].app.world_mut().resource_mut::<Log>().protocol_mismatch = 0;
                self.disconnect(ci);
            }
        }
    }

    /// Bounded-progress version of "eventually": everything is delivered in order for `rounds`
    /// lock-step rounds with a tick each.
    pub fn quiesce(&mut self, rounds: usize) {
        self.quiescing = true;
        self.note("quiesce".into());
        while !self.pending_show.is_empty() {
            self.show_pending();
        }
        for i in 0..self.clients.len() {
            self.clients[i].hold_upd = false;
            if self.clients[i].ent.is_none() {
                self.connect(i);
            }
        }
        let mut ticks = 0;
        for round in 0..rounds * 4 {
            if ticks >= rounds {
                break;
            }
            if round == 2 && self.cfg.auth == Auth::Custom {
                for i in 0..self.clients.len() {
                    self.authorize(i);
                }
            }
            self.server_frame(true);
            if self.last_frame_ticked {
                ticks += 1;
            }
            for ci in 0..self.clients.len() {
                if self.clients[ci].ent.is_none() {
                    if !self.clients[ci].mismatch {
                        self.connect(ci);
                    }
                    continue;
                }
                self.flush_client(ci, true, false);
                self.client_frame(ci);
                self.flush_client(ci, false, true);
            }
            self.service_disconnect_requests();
            if self.errs.len() > 12 {
                return;
            }
        }
    }
}
