//! Component / event vocabulary of the session simulator and the app builder.
use bevy::{ecs::entity::MapEntities, prelude::*, time::TimeUpdateStrategy};
use bevy_replicon::{
    client::{
        ServerUpdateTick,
        confirm_history::{ConfirmHistory, EntityReplicated},
        server_mutate_ticks::MutateTickReceived,
    },
    bytes::Bytes,
    prelude::*,
    shared::{
        replication::{
            command_markers::{AppMarkerExt, MarkerConfig},
            deferred_entity::DeferredEntity,
            replication_registry::{
                ctx::{RemoveCtx, WriteCtx},
                rule_fns::RuleFns,
            },
            track_mutate_messages::TrackAppExt,
        },
        replicon_tick::RepliconTick,
    },
};
use serde::{Deserialize, Serialize};
use std::time::Duration;

// ------------------------------------------------------------------------------------------------
// Components
// ------------------------------------------------------------------------------------------------

#[derive(Component, Serialize, Deserialize, Clone, PartialEq, Debug)]
pub struct Va(pub u32);
#[derive(Component, Serialize, Deserialize, Clone, PartialEq, Debug)]
pub struct Vb(pub u32);
/// Eight raw secret bytes (postcard writes fixed arrays verbatim) - C08 scans messages for them.
#[derive(Component, Serialize, Deserialize, Clone, PartialEq, Debug)]
pub struct Sec(pub [u8; 8]);
#[derive(Component, Serialize, Deserialize, Clone, PartialEq, Debug)]
pub struct Blob(pub Vec<u8>);
#[derive(Component, Serialize, Deserialize, Clone, PartialEq, Debug)]
#[component(immutable)]
pub struct Imm(pub u32);
#[derive(Component, Serialize, Deserialize, Clone, PartialEq, Debug)]
pub struct Once(pub u32);
#[derive(Component, Serialize, Deserialize, Clone, PartialEq, Debug)]
pub struct Per(pub u32);
#[derive(Component, Serialize, Deserialize, Clone, PartialEq, Debug, MapEntities)]
pub struct Link(#[entities] pub Entity);

/// A replicated relationship (hooks run on the client when it is written): the source is attached
/// to the target; not linked (despawning the target only removes the component from the sources).
#[derive(Component, Serialize, Deserialize, Clone, PartialEq, Debug)]
#[relationship(relationship_target = Attachments)]
pub struct AttachedTo(pub Entity);
#[derive(Component, Clone, PartialEq, Debug, Default)]
#[relationship_target(relationship = AttachedTo)]
pub struct Attachments(Vec<Entity>);

/// A replicated *linked* relationship: despawning the owner despawns what it owns - on the server,
/// and on every client that mirrors the relationship (there the despawn records of the owned
/// entities then find their client entities already gone).
#[derive(Component, Serialize, Deserialize, Clone, PartialEq, Debug)]
#[relationship(relationship_target = Owns)]
pub struct OwnedBy(pub Entity);
#[derive(Component, Clone, PartialEq, Debug, Default)]
#[relationship_target(relationship = OwnedBy, linked_spawn)]
pub struct Owns(Vec<Entity>);

/// Only registered by the "wrong protocol" client build.
#[derive(Component, Serialize, Deserialize, Clone, PartialEq, Debug)]
pub struct Extra(pub u32);

/// Second synchronized relationship (ChildOf is the first). Not replicated as a component.
#[derive(Component, Clone, PartialEq, Debug)]
#[relationship(relationship_target = FollowedBy)]
pub struct Follows(pub Entity);
#[derive(Component, Clone, PartialEq, Debug, Default)]
#[relationship_target(relationship = Follows)]
pub struct FollowedBy(Vec<Entity>);

pub const NK: usize = 10;
pub const K_VA: usize = 0;
pub const K_VB: usize = 1;
pub const K_SEC: usize = 2;
pub const K_BLOB: usize = 3;
pub const K_IMM: usize = 4;
pub const K_ONCE: usize = 5;
pub const K_PER: usize = 6;
pub const K_LINK: usize = 7;
pub const K_ATT: usize = 8;
pub const K_OWN: usize = 9;
pub const KIND_NAMES: [&str; NK] = ["Va", "Vb", "Sec", "Blob", "Imm", "Once", "Per", "Link", "Att", "Own"];
/// Period of `Per`.
pub const PERIOD: u32 = 2;

/// Kinds replicated every tick whose values C02 compares against the snapshot at the confirmed tick.
pub fn is_every_tick_value(k: usize) -> bool {
    matches!(k, K_VA | K_VB | K_SEC | K_BLOB | K_IMM)
}

#[derive(Clone, PartialEq, Eq, Debug, PartialOrd, Ord)]
pub enum Val {
    U(u32),
    B(Vec<u8>),
    E(Entity),
}

impl Val {
    pub fn short(&self) -> String {
        match self {
            Val::U(u) => format!("{u}"),
            Val::B(b) if b.len() <= 8 => format!("{b:02x?}"),
            Val::B(b) => format!("[{} bytes {:02x}..]", b.len(), b[0]),
            Val::E(e) => format!("{e}"),
        }
    }
}

pub type Snap = [Option<Val>; NK];

pub fn snap_kinds(s: &Snap) -> [bool; NK] {
    let mut k = [false; NK];
    for i in 0..NK {
        k[i] = s[i].is_some();
    }
    k
}

pub fn kinds_str(k: &[bool; NK]) -> String {
    let v: Vec<&str> = (0..NK).filter(|i| k[*i]).map(|i| KIND_NAMES[i]).collect();
    format!("{{{}}}", v.join(","))
}

pub fn get_kind(e: &EntityRef, k: usize) -> Option<Val> {
    match k {
        K_VA => e.get::<Va>().map(|c| Val::U(c.0)),
        K_VB => e.get::<Vb>().map(|c| Val::U(c.0)),
        K_SEC => e.get::<Sec>().map(|c| Val::B(c.0.to_vec())),
        K_BLOB => e.get::<Blob>().map(|c| Val::B(c.0.clone())),
        K_IMM => e.get::<Imm>().map(|c| Val::U(c.0)),
        K_ONCE => e.get::<Once>().map(|c| Val::U(c.0)),
        K_PER => e.get::<Per>().map(|c| Val::U(c.0)),
        K_LINK => e.get::<Link>().map(|c| Val::E(c.0)),
        K_ATT => e.get::<AttachedTo>().map(|c| Val::E(c.0)),
        K_OWN => e.get::<OwnedBy>().map(|c| Val::E(c.0)),
        _ => unreachable!(),
    }
}

pub fn has_kind(e: &EntityRef, k: usize) -> bool {
    match k {
        K_VA => e.contains::<Va>(),
        K_VB => e.contains::<Vb>(),
        K_SEC => e.contains::<Sec>(),
        K_BLOB => e.contains::<Blob>(),
        K_IMM => e.contains::<Imm>(),
        K_ONCE => e.contains::<Once>(),
        K_PER => e.contains::<Per>(),
        K_LINK => e.contains::<Link>(),
        K_ATT => e.contains::<AttachedTo>(),
        K_OWN => e.contains::<OwnedBy>(),
        _ => unreachable!(),
    }
}

pub fn snap_of(e: &EntityRef) -> Snap {
    let mut s: Snap = Default::default();
    for k in 0..NK {
        s[k] = get_kind(e, k);
    }
    s
}

pub fn has_any_kind(e: &EntityRef) -> bool {
    (0..NK).any(|k| has_kind(e, k))
}

fn sec_arr(b: &[u8]) -> [u8; 8] {
    let mut a = [0u8; 8];
    a.copy_from_slice(&b[..8]);
    a
}

pub fn insert_kind(e: &mut EntityWorldMut, k: usize, v: Val) {
    match (k, v) {
        (K_VA, Val::U(u)) => e.insert(Va(u)),
        (K_VB, Val::U(u)) => e.insert(Vb(u)),
        (K_SEC, Val::B(b)) => e.insert(Sec(sec_arr(&b))),
        (K_BLOB, Val::B(b)) => e.insert(Blob(b)),
        (K_IMM, Val::U(u)) => e.insert(Imm(u)),
        (K_ONCE, Val::U(u)) => e.insert(Once(u)),
        (K_PER, Val::U(u)) => e.insert(Per(u)),
        (K_LINK, Val::E(t)) => e.insert(Link(t)),
        (K_ATT, Val::E(t)) => e.insert(AttachedTo(t)),
        (K_OWN, Val::E(t)) => e.insert(OwnedBy(t)),
        (k, v) => panic!("harness bug: kind {k} with value {v:?}"),
    };
}

/// Mutates in place (through `get_mut`, i.e. change detection only); `Imm` is re-inserted.
/// Returns false if the component is absent.
pub fn mutate_kind(e: &mut EntityWorldMut, k: usize, v: Val) -> bool {
    match (k, v) {
        (K_VA, Val::U(u)) => e.get_mut::<Va>().map(|mut c| c.0 = u).is_some(),
        (K_VB, Val::U(u)) => e.get_mut::<Vb>().map(|mut c| c.0 = u).is_some(),
        (K_SEC, Val::B(b)) => e.get_mut::<Sec>().map(|mut c| c.0 = sec_arr(&b)).is_some(),
        (K_BLOB, Val::B(b)) => e.get_mut::<Blob>().map(|mut c| c.0 = b).is_some(),
        (K_IMM, Val::U(u)) => {
            if e.contains::<Imm>() {
                e.insert(Imm(u));
                true
            } else {
                false
            }
        }
        (K_ONCE, Val::U(u)) => e.get_mut::<Once>().map(|mut c| c.0 = u).is_some(),
        (K_PER, Val::U(u)) => e.get_mut::<Per>().map(|mut c| c.0 = u).is_some(),
        (K_LINK, Val::E(t)) => e.get_mut::<Link>().map(|mut c| c.0 = t).is_some(),
        (K_ATT, Val::E(t)) => {
            if e.contains::<AttachedTo>() {
                e.insert(AttachedTo(t));
                true
            } else {
                false
            }
        }
        (K_OWN, Val::E(t)) => {
            if e.contains::<OwnedBy>() {
                e.insert(OwnedBy(t));
                true
            } else {
                false
            }
        }
        (k, v) => panic!("harness bug: kind {k} with value {v:?}"),
    }
}

pub fn remove_kind(e: &mut EntityWorldMut, k: usize) {
    match k {
        K_VA => e.remove::<Va>(),
        K_VB => e.remove::<Vb>(),
        K_SEC => e.remove::<Sec>(),
        K_BLOB => e.remove::<Blob>(),
        K_IMM => e.remove::<Imm>(),
        K_ONCE => e.remove::<Once>(),
        K_PER => e.remove::<Per>(),
        K_LINK => e.remove::<Link>(),
        K_ATT => e.remove::<AttachedTo>(),
        K_OWN => e.remove::<OwnedBy>(),
        _ => unreachable!(),
    };
}

// ------------------------------------------------------------------------------------------------
// Events. Every event carries a harness-assigned sequence number as first field.
// ------------------------------------------------------------------------------------------------

#[derive(Event, Serialize, Deserialize, Clone, Debug)]
pub struct SEv(pub u32);
#[derive(Event, Serialize, Deserialize, Clone, Debug)]
pub struct SEvU(pub u32);
#[derive(Event, Serialize, Deserialize, Clone, Debug)]
pub struct SInd(pub u32);
#[derive(Event, Serialize, Deserialize, Clone, Debug, MapEntities)]
pub struct SMap {
    pub seq: u32,
    #[entities]
    pub e: Entity,
}
#[derive(Event, Serialize, Deserialize, Clone, Debug)]
pub struct STrig(pub u32);
#[derive(Event, Serialize, Deserialize, Clone, Debug)]
pub struct SIndTrig(pub u32);

#[derive(Event, Serialize, Deserialize, Clone, Debug)]
pub struct CEv(pub u32);
#[derive(Event, Serialize, Deserialize, Clone, Debug)]
pub struct CEvU(pub u32);
#[derive(Event, Serialize, Deserialize, Clone, Debug, MapEntities)]
pub struct CMap {
    pub seq: u32,
    #[entities]
    pub e: Entity,
}
#[derive(Event, Serialize, Deserialize, Clone, Debug)]
pub struct CTrig(pub u32);

/// "SEvTrig": the type `SEv` is registered a second time, as an independent trigger (one Rust type,
/// two registrations with different dependence on replication).
pub const S_KINDS: [&str; 7] = ["SEv", "SEvU", "SInd", "SMap", "STrig", "SIndTrig", "SEvTrig"];
pub const C_KINDS: [&str; 4] = ["CEv", "CEvU", "CMap", "CTrig"];

pub fn s_kind_independent(kind: &str) -> bool {
    kind == "SInd" || kind == "SIndTrig" || kind == "SEvTrig"
}

/// One observation made by game-logic level readers/observers inside an app (in `Last`).
#[derive(Clone, Debug)]
pub struct Rec {
    pub kind: &'static str,
    pub seq: u32,
    pub ent: Option<Entity>,
    pub targets: Vec<Entity>,
    /// `ServerUpdateTick` of the observing app at the moment of observation (0 if none).
    pub utick: u32,
    /// `Some` for `FromClient<_>` observations.
    pub sender: Option<Entity>,
}

// ------------------------------------------------------------------------------------------------
// Client-side replication markers (the hook prediction / rollback crates use).
// ------------------------------------------------------------------------------------------------

/// Marker that asks for history: `Va` updates of an entity that carries it are recorded per tick
/// (also the ones that arrive late, i.e. older than the entity's confirmed tick); only the newest
/// one becomes the live value.
#[derive(Component)]
pub struct Predicted;
/// Marker without history whose functions write `Vb` the ordinary way: they must never be called
/// for an outdated message, also not on entities that carry `Predicted` as well.
#[derive(Component)]
pub struct Plain;
/// What `Predicted`'s write function recorded: (message tick, value).
#[derive(Component, Default, Clone)]
pub struct HistVa(pub Vec<(RepliconTick, u32)>);
/// Seed of the pseudo-random marker assignment of one client app (0 = no markers in this run).
#[derive(Resource, Default)]
pub struct MarkerSalt(pub u64);

fn write_va_history(ctx: &mut WriteCtx, rule_fns: &RuleFns<Va>, entity: &mut DeferredEntity, message: &mut Bytes) -> Result<()> {
    let v: Va = rule_fns.deserialize(ctx, message)?;
    let tick = ctx.message_tick;
    // (the library has already advanced the entity's confirmed tick when the message is the newest)
    let newest = entity.get::<ConfirmHistory>().is_none_or(|h| tick >= h.last_tick());
    if let Some(mut h) = entity.get_mut::<HistVa>() {
        h.0.push((tick, v.0));
    } else {
        entity.insert(HistVa(vec![(tick, v.0)]));
    }
    if newest {
        entity.insert(v);
    }
    Ok(())
}

fn remove_va_history(_ctx: &mut RemoveCtx, entity: &mut DeferredEntity) {
    entity.remove::<HistVa>().remove::<Va>();
}

fn write_vb_plain(ctx: &mut WriteCtx, rule_fns: &RuleFns<Vb>, entity: &mut DeferredEntity, message: &mut Bytes) -> Result<()> {
    let v: Vb = rule_fns.deserialize(ctx, message)?;
    entity.insert(v);
    Ok(())
}

fn remove_vb_plain(_ctx: &mut RemoveCtx, entity: &mut DeferredEntity) {
    entity.remove::<Vb>();
}

/// Sequence number the client's game logic uses for its greeting event on the next connect.
#[derive(Resource, Default)]
pub struct Hello(pub u32);

/// In-app monitor log. Only mutated through `ResMut`, i.e. with exclusive access.
#[derive(Resource, Default)]
pub struct Log {
    pub recs: Vec<Rec>,
    pub mutate_ticks: Vec<u32>,
    pub replicated: Vec<(Entity, u32)>,
    pub protocol_mismatch: u32,
    pub disconnect_requests: Vec<Entity>,
}

fn ut(t: &Option<Res<ServerUpdateTick>>) -> u32 {
    t.as_ref().map(|t| t.get()).unwrap_or(0)
}

// ------------------------------------------------------------------------------------------------
// App builder
// ------------------------------------------------------------------------------------------------

#[derive(Clone, Copy, Debug, PartialEq, Eq)]
pub enum Pol {
    Manual,
    EveryFrame,
    MaxRate,
}

#[derive(Clone, Copy, Debug, PartialEq, Eq)]
pub enum Auth {
    None,
    Protocol,
    Custom,
}

#[derive(Clone, Copy, Debug, PartialEq, Eq)]
pub enum Vis {
    All,
    Blacklist,
    Whitelist,
}

#[derive(Clone, Debug)]
pub struct Cfg {
    pub vis: Vis,
    pub pol: Pol,
    pub auth: Auth,
    pub track: bool,
    pub rel: bool,
    pub nclients: usize,
    /// dedicated server app + client-only apps instead of full plugin groups on both sides
    pub split: bool,
    pub events: bool,
    /// `ServerPlugin::mutations_timeout` in milliseconds (frames are 10 ms)
    pub timeout_ms: u64,
}

impl Cfg {
    pub fn key(&self) -> String {
        format!(
            "{:?}/{:?}/{:?}/track={}/rel={}/n={}/split={}/events={}/timeout={}ms",
            self.vis, self.pol, self.auth, self.track as u8, self.rel as u8, self.nclients, self.split as u8, self.events as u8, self.timeout_ms
        )
    }
}

#[derive(Clone, Copy, PartialEq, Eq, Debug)]
pub enum Role {
    Server,
    Client,
    /// Client whose registrations differ in one step (wrong protocol hash): 0 = one extra rule,
    /// 1 = two rules swapped, 2 = a rule with another priority, 3 = an event not marked independent,
    /// 4 = a trigger not marked independent (3 and 4 need events; they fall back to 0).
    ClientMismatch(u8),
}

pub const FRAME_MS: u64 = 10;

pub fn mk_app(cfg: &Cfg, role: Role) -> App {
    let mut app = App::new();
    let shared = RepliconSharedPlugin {
        auth_method: match cfg.auth {
            Auth::None => AuthMethod::None,
            Auth::Protocol => AuthMethod::ProtocolCheck,
            Auth::Custom => AuthMethod::Custom,
        },
    };
    let server = ServerPlugin {
        tick_policy: match cfg.pol {
            Pol::Manual => TickPolicy::Manual,
            Pol::EveryFrame => TickPolicy::EveryFrame,
            Pol::MaxRate => TickPolicy::MaxTickRate(40), // 25 ms, frames are 10 ms
        },
        visibility_policy: match cfg.vis {
            Vis::All => VisibilityPolicy::All,
            Vis::Blacklist => VisibilityPolicy::Blacklist,
            Vis::Whitelist => VisibilityPolicy::Whitelist,
        },
        mutations_timeout: Duration::from_millis(cfg.timeout_ms),
    };
    app.add_plugins(MinimalPlugins);
    let mut group = RepliconPlugins.build().set(shared);
    if cfg.split {
        match role {
            Role::Server => {
                group = group.set(server).disable::<ClientPlugin>().disable::<ClientEventPlugin>();
            }
            _ => {
                group = group.disable::<ServerPlugin>().disable::<ServerEventPlugin>();
            }
        }
    } else {
        group = group.set(server);
    }
    app.add_plugins(group);
    // (the crate is built with its `client_diagnostics` feature: the plugin group then contains
    // `ClientDiagnosticsPlugin`, which keeps replication statistics and samples them every frame)
    app.insert_resource(TimeUpdateStrategy::ManualDuration(Duration::from_millis(FRAME_MS)))
        .init_resource::<Log>()
        .init_resource::<MarkerSalt>();
    // markers are registered in every app (registration is part of a build); only client roles assign them
    app.register_marker_with::<Predicted>(MarkerConfig { need_history: true, ..Default::default() })
        .register_marker::<Plain>()
        .set_marker_fns::<Predicted, Va>(write_va_history, remove_va_history)
        .set_marker_fns::<Plain, Vb>(write_vb_plain, remove_vb_plain);
    if role != Role::Server {
        app.add_observer(|t: Trigger<OnAdd, Replicated>, salt: Res<MarkerSalt>, mut commands: Commands| {
            if salt.0 == 0 {
                return;
            }
            let e = t.target();
            let h = crate::util::fnv64(&[salt.0.to_le_bytes(), e.to_bits().to_le_bytes()].concat()) % 6;
            match h {
                0 => {
                    commands.entity(e).insert((Predicted, Plain));
                }
                1 => {
                    commands.entity(e).insert(Predicted);
                }
                2 => {
                    commands.entity(e).insert(Plain);
                }
                _ => {}
            }
        });
    }

    let variant = match role {
        Role::ClientMismatch(v) if cfg.events || v < 3 => Some(v),
        Role::ClientMismatch(_) => Some(0),
        _ => None,
    };
    if variant == Some(0) {
        app.replicate::<Extra>();
    }
    match variant {
        Some(1) => {
            app.replicate::<Vb>().replicate::<Va>();
        }
        Some(2) => {
            app.replicate::<Va>().replicate_with_priority(5, RuleFns::<Vb>::default());
        }
        _ => {
            app.replicate::<Va>().replicate::<Vb>();
        }
    }
    app.replicate::<Sec>()
        .replicate::<Blob>()
        .replicate::<Imm>()
        .replicate_once::<Once>()
        .replicate_periodic::<Per>(PERIOD)
        .replicate::<Link>()
        .replicate::<AttachedTo>()
        .replicate::<OwnedBy>();

    if cfg.events {
        app.add_server_event::<SEv>(Channel::Ordered)
            .add_server_event::<SEvU>(Channel::Unordered)
            .add_server_event::<SInd>(Channel::Ordered);
        if variant != Some(3) {
            app.make_event_independent::<SInd>();
        }
        app
            .add_mapped_server_event::<SMap>(Channel::Ordered)
            .add_server_trigger::<STrig>(Channel::Ordered)
            .add_server_trigger::<SIndTrig>(Channel::Ordered);
        if variant != Some(4) {
            app.make_trigger_independent::<SIndTrig>();
        }
        app.add_server_trigger::<SEv>(Channel::Ordered).make_trigger_independent::<SEv>();
        app
            .add_client_event::<CEv>(Channel::Ordered)
            .add_client_event::<CEvU>(Channel::Unreliable)
            .add_mapped_client_event::<CMap>(Channel::Ordered)
            .add_client_trigger::<CTrig>(Channel::Ordered);
        app.add_systems(
            Last,
            (
                |mut r: EventReader<SEv>, mut l: ResMut<Log>, t: Option<Res<ServerUpdateTick>>| {
                    for e in r.read() {
                        l.recs.push(Rec { kind: "SEv", seq: e.0, ent: None, targets: vec![], utick: ut(&t), sender: None });
                    }
                },
                |mut r: EventReader<SEvU>, mut l: ResMut<Log>, t: Option<Res<ServerUpdateTick>>| {
                    for e in r.read() {
                        l.recs.push(Rec { kind: "SEvU", seq: e.0, ent: None, targets: vec![], utick: ut(&t), sender: None });
                    }
                },
                |mut r: EventReader<SInd>, mut l: ResMut<Log>, t: Option<Res<ServerUpdateTick>>| {
                    for e in r.read() {
                        l.recs.push(Rec { kind: "SInd", seq: e.0, ent: None, targets: vec![], utick: ut(&t), sender: None });
                    }
                },
                |mut r: EventReader<SMap>, mut l: ResMut<Log>, t: Option<Res<ServerUpdateTick>>| {
                    for e in r.read() {
                        l.recs.push(Rec { kind: "SMap", seq: e.seq, ent: Some(e.e), targets: vec![], utick: ut(&t), sender: None });
                    }
                },
                |mut r: EventReader<FromClient<CEv>>, mut l: ResMut<Log>| {
                    for e in r.read() {
                        l.recs.push(Rec { kind: "CEv", seq: e.event.0, ent: None, targets: vec![], utick: 0, sender: Some(e.client) });
                    }
                },
                |mut r: EventReader<FromClient<CEvU>>, mut l: ResMut<Log>| {
                    for e in r.read() {
                        l.recs.push(Rec { kind: "CEvU", seq: e.event.0, ent: None, targets: vec![], utick: 0, sender: Some(e.client) });
                    }
                },
                |mut r: EventReader<FromClient<CMap>>, mut l: ResMut<Log>| {
                    for e in r.read() {
                        l.recs.push(Rec { kind: "CMap", seq: e.event.seq, ent: Some(e.event.e), targets: vec![], utick: 0, sender: Some(e.client) });
                    }
                },
            ),
        )
        .add_observer(|t: Trigger<STrig>, mut l: ResMut<Log>, u: Option<Res<ServerUpdateTick>>| {
            l.recs.push(Rec { kind: "STrig", seq: t.event().0, ent: None, targets: vec![t.target()], utick: ut(&u), sender: None });
        })
        .add_observer(|t: Trigger<SIndTrig>, mut l: ResMut<Log>, u: Option<Res<ServerUpdateTick>>| {
            l.recs.push(Rec { kind: "SIndTrig", seq: t.event().0, ent: None, targets: vec![t.target()], utick: ut(&u), sender: None });
        })
        .add_observer(|t: Trigger<SEv>, mut l: ResMut<Log>, u: Option<Res<ServerUpdateTick>>| {
            l.recs.push(Rec { kind: "SEvTrig", seq: t.event().0, ent: None, targets: vec![], utick: ut(&u), sender: None });
        })
        .add_observer(|t: Trigger<FromClient<CTrig>>, mut l: ResMut<Log>| {
            l.recs.push(Rec { kind: "CTrig", seq: t.event().event.0, ent: None, targets: vec![t.target()], utick: 0, sender: Some(t.event().client) });
        });
    }

    let has_client = !(cfg.split && role == Role::Server);
    if has_client && cfg.events && role != Role::Server {
        // game logic that greets the server on the very frame the connection comes up
        app.init_resource::<Hello>().add_systems(
            Update,
            (|mut w: EventWriter<CEv>, h: Res<Hello>| {
                if h.0 != 0 {
                    w.write(CEv(h.0));
                }
            })
            .run_if(client_just_connected),
        );
    }
    if has_client {
        app.add_systems(
            Last,
            (
                |mut r: EventReader<MutateTickReceived>, mut l: ResMut<Log>| {
                    for e in r.read() {
                        l.mutate_ticks.push(e.tick.get());
                    }
                },
                |mut r: EventReader<EntityReplicated>, mut l: ResMut<Log>| {
                    for e in r.read() {
                        l.replicated.push((e.entity, e.tick.get()));
                    }
                },
            ),
        );
        if cfg.auth == Auth::Protocol {
            app.add_observer(|_t: Trigger<ProtocolMismatch>, mut l: ResMut<Log>| {
                l.protocol_mismatch += 1;
            });
        }
    }
    let has_server = !(cfg.split && role != Role::Server);
    if has_server {
        app.add_systems(Last, |mut r: EventReader<DisconnectRequest>, mut l: ResMut<Log>| {
            for e in r.read() {
                l.disconnect_requests.push(e.client);
            }
        });
    }

    if cfg.track {
        app.track_mutate_messages();
    }
    if cfg.rel && has_server {
        app.sync_related_entities::<ChildOf>();
        app.sync_related_entities::<Follows>();
    }
    if let Ok(f) = std::env::var("VERIF_TRACE") {
        app.add_plugins(bevy::log::LogPlugin {
            filter: if f.contains('=') { f } else { "bevy_replicon=trace".into() },
            ..Default::default()
        });
    }
    app.finish();
    app.cleanup();
    app
}
