pub mod comps;
pub mod oracle;
pub mod run;
pub mod sim;
pub mod util;
pub mod wire;
