#!/usr/bin/env python3
"""Writes /verif/MANIFEST.json from the table below (single source of truth for the interface)."""
import json, os
ROOT = os.path.dirname(os.path.dirname(os.path.abspath(__file__)))

SIM_NOTE = ("Trusted base: the harness (harness/src/{sim,oracle,wire,comps}.rs) acting as messaging backend through the public "
            "API, its own visibility/relationship/event records, the re-implemented wire decoders, workload domain rules R1-R6 "
            "(DESIGN.md 3.3). Verdict = held on the executions driven in this run, nothing more.")

CHECKS = {
 "C01": dict(engine="sim", cat="exploration", ref="DESIGN.md 4/C01",
   tech="runtime monitoring: random session histories x hostile network schedules, reference-model comparison of every client world with the server world at bounded quiescence; release + debug-assert lanes, thorough adds valgrind-memcheck and AddressSanitizer lanes",
   text="Exploration by execution: thousands of seed-determined sessions (world ops, 1..n frames per tick, per-message deliver/hold/drop/reorder, joins/leaves/restarts, all tick/visibility/auth policies) are run against the real library; after bounded quiescence every client world is compared with the harness' own record of the visible server state, and any panic inside App::update is a violation. Right level because the property quantifies over histories x schedules, which only execution of the real code under a controllable transport can sample; no proof is claimed.",
   note=SIM_NOTE + " Liveness is restated as bounded progress (16 lock-step ticks after the last change). One recorded known finding (F4, periodic change lost) is classified by a history predicate."),
 "C02": dict(engine="sim", cat="exploration", ref="DESIGN.md 4/C02",
   tech="runtime monitoring: per-client-frame invariant check of entity values against recorded per-tick server snapshots (ConfirmHistory::last_tick), monotonicity assertions",
   text="After every client frame of every run, each mapped entity's continuously replicated values are compared with the server snapshot at the entity's confirmed tick, send-once values with a model of the last full send, and confirmed ticks must be monotone and real server ticks. Schedule-heavy profile: update channel held while mutate messages and acks flow.",
   note=SIM_NOTE),
 "C03": dict(engine="sim", cat="exploration", ref="DESIGN.md 4/C03",
   tech="runtime monitoring: per-client-frame structural invariant (held entity set, component kinds, marker, bijective entity map) against the per-client snapshot at ServerUpdateTick",
   text="After every client frame the client's structure must equal the structure the harness recorded for that client at the tick the client reports as its update tick; the tick must be monotone. Structure-heavy profile with several operations per entity spread over the frames of one tick window.",
   note=SIM_NOTE),
 "C04": dict(engine="sim", cat="exploration", ref="DESIGN.md 4/C04",
   tech="runtime monitoring: event log with unique sequence numbers; wire-stamp decode at send, in-app observers at delivery; ordering oracle update-tick >= stamp, entity resolution vs. entity map",
   text="Every dependent server event/trigger carries a harness sequence number; its tick stamp is decoded when it leaves the server and compared with the last update message sent to that client; at delivery the client's update tick must have reached the stamp, the transport must actually have handed the update message of that tick to the client in the current session (independent of what the client reports), and referenced entities must resolve through the client's map. Events overtake 1..n held update messages; sessions end and servers restart.",
   note=SIM_NOTE),
 "C05": dict(engine="sim", cat="exploration", ref="DESIGN.md 4/C05",
   tech="runtime monitoring: offline-style checker over the delivery log (exactly-once / at-most-once, recipients per send mode fixed at the processing frame, per-type order, sender identity, no cross-session delivery)",
   text="Unique sequence numbers make the history unambiguous; the model is a map event -> intended recipient sessions. Duplicates, foreign recipients, order inversions on ordered channels, wrong sender identity, deliveries from a previous session and undelivered reliable events after quiescence are violations. Client game logic also emits a greeting event on the very frame the connection comes up.",
   note=SIM_NOTE),
 "C07": dict(engine="sim", cat="exploration", ref="DESIGN.md 4/C07",
   tech="runtime monitoring: per-message monitor on RepliconServer::drain_sent (no replication / dependent-event bytes for clients without AuthorizedClient), handshake outcome monitor, convergence after authorization",
   text="Every message the server hands to the transport is attributed to its addressee; anything on the replication channels or a dependent event channel for an unauthorized client is a violation; clients authorize late, never (custom) or with a different protocol hash; after authorization the C03 oracle demands the complete visible state.",
   note=SIM_NOTE),
 "C08": dict(engine="sim", cat="exploration", ref="DESIGN.md 4/C08",
   tech="runtime monitoring: raw byte scan of every sent message for per-entity 8-byte secrets of entities hidden from the addressee; is_visible cross-check against the harness' own record after every call and tick",
   text="Secrets are random 8-byte component payloads; a plain substring scan (no decoding trusted) over every message to a client looks for secrets of entities the harness' record says are hidden from it, including entities that died hidden. ClientVisibility::is_visible is compared with the record after each set_visibility and each tick; structure/convergence violations on entities with explicit settings are attributed to C08 too.",
   note=SIM_NOTE + " Chance collision of an 8-byte secret with other traffic ~2^-64 per offset."),
 "C09": dict(engine="sim", cat="fault_enumeration", ref="DESIGN.md 4/C09",
   tech="runtime monitoring with fault injection: a client disconnect or server stop injected at enumerated points of base scenarios, then C01-C03 oracles restarted for the new session plus reset/no-leftover monitors",
   text="Fault enumeration over the injection point: quick samples 25 points per base scenario, thorough enumerates every step of each base scenario. At the fault whatever is in flight/buffered/queued is recorded; afterwards client reset state, absence of old-session deliveries, absence of traffic for removed clients or while stopped, no panic, and convergence of the new session are checked.",
   note=SIM_NOTE),
 "C10": dict(engine="sim", cat="exploration", ref="DESIGN.md 4/C10",
   tech="runtime monitoring: wire decode of every tick's mutate messages against the harness' own relationship graph and size arithmetic; C02 oracle under partial delivery",
   text="Per client and tick: an entity in two messages, related (both marked) entities in different messages, a message above the client's max size although every group fits, or more than one message although everything fits into one are violations. Blob sizes are constructed around max_size -1/0/+1; graphs evolve through insert/replace/remove/despawn/marker toggles incl. mutual relations.",
   note=SIM_NOTE + " Size bounds use the library's documented worst-case header reservation so the oracle never demands more than the packing promises."),
 "C11": dict(engine="sim", cat="exploration", ref="DESIGN.md 4/C11",
   tech="runtime monitoring: per-tick wire conditions N1 (unacknowledged change present in the tick's traffic) and N2 (acknowledged and unchanged entity not resent), junk acknowledgement injection, traffic-at-rest monitor",
   text="The harness knows which mutate message (index) carried which entity and which acknowledgements reached the server; N1/N2 are evaluated on every tick's decoded traffic under delayed/lost/junk acks; after quiescence three ticks must produce no replication messages (exactly one empty mutate message iff tracking) and a fresh change must resume traffic.",
   note=SIM_NOTE),
 "C12": dict(engine="sim", cat="exploration", ref="DESIGN.md 4/C12",
   tech="runtime monitoring: (a) public API of ConfirmHistory/ServerMutateTicks/RepliconTick against a plain set model over boundary + random confirmation sequences, (b) MutateTickReceived against the delivery record end to end",
   text="Model part: after every confirmation step every membership/range query in a +-70 tick neighbourhood is compared with a BTreeSet of confirmed ticks (older than the window = confirmed), across the u32 wrap and gaps >= 64. End-to-end part: a tick may be reported fully received exactly once and only when all mutate messages the wire count announced were delivered and applied (none of them still waits for an update tick the client has not reached).",
   note=SIM_NOTE),
 "C16": dict(engine="sim", cat="exploration", ref="DESIGN.md 4/C16",
   tech="runtime monitoring: per-client-frame check of registered (server entity, pre-spawned client entity) pairs against ServerEntityMap and marked-entity census",
   text="Pre-spawn + mapping ops at arbitrary points of a tick window with extra traffic, with the mapping registered in the tick of first visibility or in an earlier one, and adoption of never-replicated existing entities; after every client frame a mapped server entity must resolve to the pre-spawned entity (or to a fresh one if the client despawned it), no marked entity may exist outside the map, other clients' structure is checked by C03.",
   note=SIM_NOTE),
}

PURE_NOTE = "Trusted base: the engine source under harness/src/bin and harness/src/{util,wire}.rs. Verdict = held on the inputs/executions of this run."
CHECKS.update({
 "C06": dict(engine="c06", cat="exploration", ref="DESIGN.md 4/C06",
   tech="runtime monitoring with sanitizer-style oracles: hostile byte strings fed to the real server App one per frame under catch_unwind, a counting global allocator (largest / total request per message), a message-release monitor (Bytes::is_unique on retained clones), process-death detection by the driver, overflow-check (debug-assert) and release lanes, service check through a well-behaved client",
   text="Exhaustive over all byte strings of length <=2 (quick) / <=3 (thorough) per channel and sender, structure-aware generation beyond (inflated length fields, boundary entity bits, truncation, over-long varints, batches interleaved with legitimate traffic and connects/disconnects). A panic escaping App::update, an allocation request out of proportion (>= 1 MiB for <= 4 KiB of input), a message the server still holds after the frame that processed it, the same on a freshly started server whose only connections are unauthorized (flooded for 20..80 frames, then joined by a well-behaved client), a dead worker process, a server frame that does not return within 20 s (watchdog), a legitimate event queued behind the hostile bytes in the same frame that is not handled, or a well-behaved client that stops converging are violations. Both arithmetic lanes run because overflow behaviour differs between them.",
   note=PURE_NOTE + " Exhaustiveness holds only for the short-input blocks; everything longer is sampled. Miri/valgrind/AddressSanitizer lanes: a report is a violation of C06 (DESIGN.md 3.6)."),
 "C13": dict(engine="c13+c13b", cat="exploration", ref="DESIGN.md 4/C13",
   tech="runtime monitoring: (a) client and server Apps on the repository's example backend over loopback TCP with connections closed from either side around emitting frames, per-event remote/local counters; (b) single-App state machine over {singleplayer, listen server, client connecting/connected, dedicated server} with per-event handling counters (remote sends decoded from RepliconClient::drain_sent + local observations by in-app readers/observers)",
   text="Random interleavings of status transitions and emissions (events/triggers, with/without targets, all send modes incl. SERVER); per event remote+local handlings must be exactly one on the path selected by the state at its processing frame, local sender must be SERVER, nothing may be put on the network without a connection, no panic. Over the example backend: events and triggers written in the frames around a connection close (resource removed before / inside the frame, server stopped, server dropped the connection) must be seen exactly once by the remote server while the frame ends connected and exactly once locally when it ends disconnected.",
   note=PURE_NOTE),
 "C14": dict(engine="c14", cat="exploration", ref="DESIGN.md 4/C14",
   tech="runtime monitoring: generated registration sequences and all their single-step edits hashed by freshly built Apps (and by a second process), equality oracle hash-equality <=> sequence-equality; ProtocolCheck handshake outcome monitor",
   text="Sequences of 0..8 registration actions out of 25 plus every neighbour swap, deletion, insertion and replacement; equal sequences must hash equal in-process and across processes, different ones must differ; per case real handshakes (equal and edited pair, half of them through a Connecting phase, and one client app over three sessions: compatible, edited, compatible server) check authorization / mismatch notification / disconnect request per session.",
   note=PURE_NOTE + " A genuine 64-bit collision would show up as a violation; none is expected at this scale."),
 "C15": dict(engine="c15", cat="exploration", ref="DESIGN.md 4/C15",
   tech="runtime monitoring of the public codec functions: round trip + exact consumption over boundary classes x random identifiers with trailing bytes; totality over byte strings (exhaustive <=2/<=3 bytes, random/mutated <=12) under catch_unwind, cross-checked with an independent decoder; release + overflow-check lanes",
   text="Every decoded identifier must be valid and agree with the documented format, every valid identifier must survive, the decoder must consume exactly the encoder's bytes when embedded in a longer buffer, and no byte string may panic the decoder (overflow checks on in the checked lane).",
   note=PURE_NOTE),
 "C17": dict(engine="c17", cat="exploration", ref="DESIGN.md 4/C17",
   tech="runtime monitoring over real loopback sockets: sequence-numbered independent events with content-derived payloads, per-channel exactly-once/order/payload oracle, TCP-order markers to tell loss from delay",
   text="Two Apps connected through the example backend; 1..60 messages per channel pile up between two receiver frames in both directions on four channels; the received per-channel sequence must equal the sent one and payloads must be intact. A case whose markers do not arrive is inconclusive, never a violation.",
   note=PURE_NOTE + " Loopback only; kernel scheduling is outside the harness' control, so schedules are not replayable bit for bit (the seed fixes the workload, not the timing)."),
 "C18": dict(engine="c18", cat="exploration", ref="DESIGN.md 4/C18",
   tech="runtime monitoring of scene::replicate_into against the harness' own evaluation of the rule set, plus serialize + read-back of every exported scene",
   text="Random worlds x rule sets (overlapping single/bundle/custom-priority rules over reflected, unregistered, unreflected types; marked and unmarked entities; pre-populated scenes); exactly one scene entity per marked entity, exactly the selected reflected components once each with their values, no marker, and the RON round trip must succeed.",
   note=PURE_NOTE),
})
CHECKS["C12"]["engine"] = "sim+c12m"

NOT_YET = {}

def main():
    checks = []
    for pid in sorted(CHECKS):
        c = CHECKS[pid]
        checks.append({
            "property_id": pid,
            "quick_cmd": f"./check {pid} quick",
            "thorough_cmd": f"./check {pid} thorough",
            "evidence_file": f"/verif/evidence/{pid}.json",
            "replay_cmd_template": f"./check {pid} --replay {{path}}",
            "engine": c["engine"],
            "level_claimed": {"category": c["cat"], "text": c["text"], "design_ref": c["ref"]},
            "level_note": c["note"],
            "technique": c["tech"],
        })
    all_ids = [f"C{n:02d}" for n in range(1, 19)]
    na = [{"property_id": p, "reason": NOT_YET.get(p, "check under construction in this commit; see DESIGN.md section 4 for the planned monitor")}
          for p in all_ids if p not in CHECKS]
    engines = [
        {"name": "sim", "path": "harness/src/bin/sim.rs", "serves_properties": [p for p in sorted(CHECKS) if CHECKS[p]["engine"] == "sim"],
         "kind_free_text": "session simulator: one server App + 1..3 client Apps, the harness is the messaging backend; per-frame and per-message oracles"},
    ]
    for name, path, kind in EXTRA_ENGINES:
        engines.append({"name": name, "path": path, "serves_properties": [p for p in sorted(CHECKS) if CHECKS[p]["engine"] == name], "kind_free_text": kind})
    man = {
        "version": 1,
        "setup_cmd": "./check --setup",
        "hooks": {
            "guard": "none (no source hooks: every observation point is public API of bevy_replicon; faults are injected at the transport boundary the harness owns)",
            "enable": "not needed; the harness crate depends on /repo by path, every check rebuilds /repo's working tree",
            "baseline_off_cmd": "cd /repo && cargo test --workspace --no-fail-fast --offline",
            "source_commits": [],
            "add_only": True,
        },
        "engines": engines,
        "checks": checks,
        "not_applicable": na,
        "notes": "Technique family: runtime monitoring and sanitizers only. Exit codes of ./check: 0 held on what was observed, 1 violation (VIOLATION line), 2 inconclusive (INCONCLUSIVE line). known_findings.json lists genuine defects that are recorded (known) or repaired (fixed).",
    }
    with open(os.path.join(ROOT, "MANIFEST.json"), "w") as f:
        json.dump(man, f, indent=1)
    print("wrote MANIFEST.json with", len(checks), "checks,", len(na), "not_applicable")

EXTRA_ENGINES = [
    ("sim+c12m", "harness/src/bin/c12m.rs", "C12: simulator with mutate-message tracking (end to end) + set-model engine for ConfirmHistory / ServerMutateTicks / RepliconTick"),
    ("c06", "harness/src/bin/c06.rs", "hostile-input engine with counting allocator, message-release monitor, trigger-target monitor and service check"),
    ("c13+c13b", "harness/src/bin/c13.rs", "C13: single-App configuration state machine (c13.rs) + client and server Apps on the example backend over loopback TCP around connection closes (c13b.rs)"),
    ("c14", "harness/src/bin/c14.rs", "registration-sequence / protocol-hash / handshake engine"),
    ("c15", "harness/src/bin/c15.rs", "entity codec engine"),
    ("c17", "harness/src/bin/c17.rs", "example backend over loopback sockets"),
    ("c18", "harness/src/bin/c18.rs", "scene export engine"),
]

if __name__ == "__main__":
    main()
