#!/bin/bash
# usage: tools/try_mutant.sh <patch.diff> <ids...>
# Applies the patch to the scratch worktree $VERIF_RC (default /tmp/rc; never to /repo), runs the given quick checks
# against it through the scratch harness copy $VERIF_HDEV (default /tmp/hdev), prints one line per check, reverts.
patch=$1; shift
RC=${VERIF_RC:-/tmp/rc}; HDEV=${VERIF_HDEV:-/tmp/hdev}
cd $RC || exit 2
git checkout -q -- . && git clean -fdq -e target
git apply "$patch" || { echo "patch does not apply"; exit 2; }
export VERIF_HARNESS_DIR=$HDEV VERIF_REPLAY_DIR=$HDEV/replays VERIF_EVIDENCE_DIR=$HDEV/evidence VERIF_REPO_DIR=$RC
for id in "$@"; do
  out=$(/verif/check $id quick 2>&1); rc=$?
  echo "$id rc=$rc $(echo "$out" | grep -E "^\[$id" | tail -1)"
  echo "$out" | grep -A1 "^VIOLATION" | grep -v "^VIOLATION\|^--" | cut -c1-220 | head -3
  echo "$out" | grep "^INCONCLUSIVE" | cut -c1-300 | head -2
done
git checkout -q -- .
