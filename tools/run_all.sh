#!/bin/bash
# usage: tools/run_all.sh quick|thorough [ids...]   -> one summary line per check
tier=${1:-quick}; shift
ids=${@:-C01 C02 C03 C04 C05 C06 C07 C08 C09 C10 C11 C12 C13 C14 C15 C16 C17 C18}
cd "$(dirname "$0")/.."
for id in $ids; do
  out=$(./check $id $tier 2>&1); rc=$?
  echo "$id rc=$rc $(echo "$out" | grep -E "^\[$id" | tail -1)"
  echo "$out" | grep -E "^(VIOLATION|KNOWN-FINDING|INCONCLUSIVE)" | cut -c1-240 | head -6
  echo "$out" | grep -A1 "^VIOLATION" | grep -v "^VIOLATION\|^--" | cut -c1-240 | head -4
done
