#!/bin/bash
# Refreshes the scratch harness copy /tmp/hdev (used by try_mutant.sh) from /verif/harness and points
# its path dependencies at the scratch worktree /tmp/rc instead of /repo.
RC=${VERIF_RC:-/tmp/rc}; HDEV=${VERIF_HDEV:-/tmp/hdev}
rsync -a --exclude target --exclude target-miri --exclude replays --exclude evidence /verif/harness/ $HDEV/
sed -i "s#path = \"/repo#path = \"$RC#g" $HDEV/Cargo.toml
grep -n 'path = ' $HDEV/Cargo.toml
