#!/bin/bash
# Refreshes the scratch harness copy /tmp/hdev (used by try_mutant.sh) from /verif/harness and points
# its path dependencies at the scratch worktree /tmp/rc instead of /repo.
rsync -a --exclude target --exclude target-miri --exclude replays --exclude evidence /verif/harness/ /tmp/hdev/
sed -i 's#path = "/repo#path = "/tmp/rc#g' /tmp/hdev/Cargo.toml
grep -n 'path = ' /tmp/hdev/Cargo.toml
