#!/usr/bin/env python3
"""Builds /verif/seeded/<name>/ from the agents' mutant directories and the mutant-queue result logs.

usage: tools/make_seeded.py <results.txt>... [--final <results.txt>...]
  Files before --final supply the confirmation records (and check results, later files override
  earlier ones); if --final files are given, check results are taken from them only (the matrix
  re-run with the final harness).

A mutant is kept only if tools/verify_mutant.sh confirmed it (patch applies, existing suite passes
with it, demo fails with it and passes without it)."""
import json, os, re, shutil, sys

ROOT = os.path.dirname(os.path.dirname(os.path.abspath(__file__)))
WT = "/tmp/wt"

def parse(paths):
    verify, checks = {}, {}
    for path in paths:
        name = None
        for line in open(path, errors="replace"):
            m = re.match(r"=== (\S+) ", line)
            if m:
                name = re.sub(r"_(r\d+|fin)$", "", m.group(1))
                continue
            if name is None:
                continue
            if line.startswith("{") and '"confirmed"' in line:
                try:
                    verify[name] = json.loads(line)
                except json.JSONDecodeError:
                    pass
                continue
            m = re.match(r"(C\d\d) rc=(\d+) \[C\d\d quick\] runs=(\d+) distinct_nontrivial=(\d+) violations=(\d+)", line)
            if m:
                checks.setdefault(name, {})[m.group(1)] = {"exit": int(m.group(2)), "runs": int(m.group(3)), "violating_observations": int(m.group(5))}
    return verify, checks

NOT_CAUGHT = {
    "C11c_1": "needs the per-client mutate index (u16) to wrap around onto an entry that is still unacknowledged, i.e. 65 536 mutate messages for one client inside one acknowledgement timeout; runs are a few hundred ticks long",
    "_C03b_2_old": "needs a server tick above 2^31 (wrapping order makes the first update tick look older than the client's initial tick 0); the workload keeps ticks below 2^22 because the unchanged library itself misorders ticks across that distance (DESIGN.md observation O4), so the region is outside the domain in which the oracles are sound",
    "C08b_2": "needs a replicated linked-spawn hierarchy (replicate::<ChildOf>) whose parent and child are hidden in consecutive ticks; the simulator does not replicate linked relationships as components (domain rule R4: client-side recursive despawn is Bevy semantics, see also observation O9)",
    "C13b_1": "only affects events emitted while the client is in the transitional Connecting state; the property promises handling for the four configurations, and the unchanged library itself discards such events when the connection attempt succeeds, so the C13 model makes no promise for them",
}

def main():
    args = sys.argv[1:]
    if "--final" in args:
        k = args.index("--final")
        verify, _ = parse(args[:k] + args[k + 1:])
        _, checks = parse(args[k + 1:])
    else:
        verify, checks = parse(args)
    out_root = os.path.join(ROOT, "seeded")
    os.makedirs(out_root, exist_ok=True)
    kept = []
    for name, v in sorted(verify.items()):
        if not v.get("confirmed"):
            print("not confirmed:", name, v)
            continue
        m = re.match(r"(C\d\d)([bcde]?)_(\d)$", name)
        if not m:
            continue
        pid, rnd, k = m.groups()
        src = os.path.join(WT, pid, {"": "mutants", "b": "mutants2", "c": "mutants3", "d": "mutants4", "e": "mutants5"}[rnd], k)
        if not os.path.isdir(src):
            print("missing source dir", src)
            continue
        dst = os.path.join(out_root, name)
        os.makedirs(dst, exist_ok=True)
        shutil.copyfile(os.path.join(src, "patch.diff"), os.path.join(dst, "patch.diff"))
        shutil.copyfile(os.path.join(src, "demo.rs"), os.path.join(dst, "demo.rs"))
        try:
            agent_meta = json.load(open(os.path.join(src, "meta.json")))
        except Exception:
            agent_meta = {}
        det = checks.get(name, {})
        meta = {
            "breaks_property": pid,
            "origin": "independent sub-agent given only the property text and a scratch worktree" + {"": "", "b": " (round 2: told to avoid the code sites of the round-1 changes for this property)", "c": " (round 3: shown the earlier changes for this property and told to find new sites, mechanisms, configurations and boundary values)", "d": " (round 4: as round 3; for C05, C08, C12, C14, C16, C18 written while the machinery was being finalised)", "e": " (round 5: as round 3, run against the final machinery)"}[rnd],
            "summary": agent_meta.get("summary", ""),
            "needs_to_manifest": agent_meta.get("needs_to_manifest", ""),
            "confirmed_by_me": {
                "how": "tools/verify_mutant.sh in a scratch worktree: git apply patch.diff; cargo test --workspace --no-fail-fast --offline (existing suite + demo); revert; cargo test --offline --test <demo>",
                "existing_suite_with_mutant": v["existing_suite"],
                "demo_with_mutant": v["demo_with_mutant"],
                "demo_without_mutant": v["demo_without_mutant"],
            },
            "demo_location": agent_meta.get("demo_location", "tests/ of the root crate"),
            "checks_run_against_it": {c: ("VIOLATION reported" if r["exit"] == 1 else "silent" if r["exit"] == 0 else "inconclusive") + f" ({r['violating_observations']} violating observations in {r['runs']} runs)" for c, r in sorted(det.items())},
            "caught_by": sorted(c for c, r in det.items() if r["exit"] == 1),
        }
        if not meta["caught_by"]:
            meta["why_not_caught"] = NOT_CAUGHT.get(name, "not analysed")
        elif pid not in meta["caught_by"]:
            meta["note"] = "the check of the property the change was written against stays silent; it is reported by the checks listed in caught_by (the violated clause is judged by their oracles)"
        with open(os.path.join(dst, "meta.json"), "w") as f:
            json.dump(meta, f, indent=1)
        kept.append((name, meta["caught_by"]))
    for n, c in kept:
        print(n, "caught by", c)
    # reverted fixes: catch matrix only
    rev = {n: c for n, c in checks.items() if n.startswith("rev_")}
    with open(os.path.join(out_root, "reverted_fixes_matrix.json"), "w") as f:
        json.dump({n: {c: r for c, r in sorted(cs.items())} for n, cs in sorted(rev.items())}, f, indent=1)

if __name__ == "__main__":
    main()
