#!/bin/bash
# usage: tools/verify_mutant.sh <mutant dir with patch.diff demo.rs> <name>
# Confirms in the scratch worktree /tmp/wt/base: patch applies, existing suite passes with it,
# demo fails with it and passes without it. Prints a one-line verdict (JSON).
d=$1; name=$2
export CARGO_NET_OFFLINE=true CARGO_PROFILE_DEV_DEBUG=0 CARGO_INCREMENTAL=0
cd /tmp/wt/base || exit 2
git checkout -q -- . ; rm -f tests/zz_demo_*.rs bevy_replicon_example_backend/tests/zz_demo_*.rs
# a demo for a change in the example backend lives in that crate's tests/
loc=tests; pkg=""
if grep -q "bevy_replicon_example_backend/tests" "$d/meta.json" 2>/dev/null && grep -q "bevy_replicon_example_backend/" "$d/patch.diff"; then loc=bevy_replicon_example_backend/tests; pkg="-p bevy_replicon_example_backend"; fi
git apply --check "$d/patch.diff" 2>/dev/null || { echo "{\"name\": \"$name\", \"applies\": false}"; exit 1; }
git apply "$d/patch.diff"
cp "$d/demo.rs" $loc/zz_demo_$name.rs
cargo test --workspace --no-fail-fast --offline > /tmp/wt/verify_$name.with.log 2>&1
git checkout -q -- .
cargo test --offline $pkg --test zz_demo_$name > /tmp/wt/verify_$name.without.log 2>&1
rm -f $loc/zz_demo_$name.rs
python3 - "$name" <<'PY'
import re,sys,json
name=sys.argv[1]
w=open(f'/tmp/wt/verify_{name}.with.log').read()
wo=open(f'/tmp/wt/verify_{name}.without.log').read()
compile_errors=len(re.findall(r'(?m)^error(\[E\d+\])?: (?!test failed|\d+ target)', w))
sections=re.split(r'(?m)^\s+Running ', w)
suite_fail=0; suite_pass=0; demo_with=None
for s in sections[1:]:
    head=s.split('\n',1)[0]
    m=re.search(r'test result: (\w+)\. (\d+) passed; (\d+) failed', s)
    if not m: continue
    if 'zz_demo_' in head:
        demo_with=(int(m.group(2)),int(m.group(3)))
    else:
        suite_pass+=int(m.group(2)); suite_fail+=int(m.group(3))
# doc tests
for m in re.finditer(r'Doc-tests .*?\n(?:.*\n)*?test result: (\w+)\. (\d+) passed; (\d+) failed', w):
    suite_pass+=int(m.group(2)); suite_fail+=int(m.group(3))
m=re.search(r'test result: (\w+)\. (\d+) passed; (\d+) failed', wo)
demo_without=(int(m.group(2)),int(m.group(3))) if m else None
ok = compile_errors==0 and suite_fail==0 and demo_with is not None and demo_with[1]>0 and demo_without is not None and demo_without[1]==0 and demo_without[0]>0
print(json.dumps({"name":name,"applies":True,"compile_errors":compile_errors,"existing_suite":{"passed":suite_pass,"failed":suite_fail},"demo_with_mutant":{"passed":demo_with[0],"failed":demo_with[1]} if demo_with else None,"demo_without_mutant":{"passed":demo_without[0],"failed":demo_without[1]} if demo_without else None,"confirmed":ok}))
PY
