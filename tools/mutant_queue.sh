#!/bin/bash
# usage: tools/mutant_queue.sh <queue file> <results file>
# queue lines: <name> <patch> <mutant dir or -> <check ids...>
q=$1; res=$2
cd /verif
while read -r name patch dir checks; do
  [ -z "$name" ] && continue
  grep -q "^=== $name " "$res" 2>/dev/null && continue
  {
    echo "=== $name $(date +%H:%M)"
    if [ "$dir" != "-" ]; then tools/verify_mutant.sh "$dir" "$name"; fi
    tools/try_mutant.sh "$patch" $checks
  } >> "$res" 2>&1
done < "$q"
echo "QUEUE-DONE $(date +%H:%M)" >> "$res"
