//! Scratch prototype 2: per-frame C02/C03 oracles, tick policies, join/leave, tracking.
use bevy::{ecs::entity::MapEntities, prelude::*, time::TimeUpdateStrategy};
use bevy_replicon::{
    client::{
        ServerUpdateTick,
        confirm_history::ConfirmHistory,
        server_mutate_ticks::{MutateTickReceived, ServerMutateTicks},
    },
    prelude::*,
    server::server_tick::ServerTick,
    shared::{replication::track_mutate_messages::TrackAppExt, server_entity_map::ServerEntityMap},
};
use bytes::Bytes;
use serde::{Deserialize, Serialize};
use std::{
    collections::{BTreeMap, BTreeSet, VecDeque},
    panic::{AssertUnwindSafe, catch_unwind},
    time::Duration,
};

#[derive(Component, Serialize, Deserialize, Clone, PartialEq, Debug)]
struct A(u32);
#[derive(Component, Serialize, Deserialize, Clone, PartialEq, Debug)]
struct B(u32);
#[derive(Component, Serialize, Deserialize, Clone, PartialEq, Debug)]
struct Big(Vec<u8>);
#[derive(Component, Serialize, Deserialize, Clone, PartialEq, Debug, MapEntities)]
struct Link(#[entities] Entity);
#[derive(Component, Serialize, Deserialize, Clone, PartialEq, Debug)]
#[component(immutable)]
struct Imm(u32);

#[derive(Clone, PartialEq, Debug, Default)]
struct Snap {
    a: Option<A>,
    b: Option<B>,
    big: Option<Big>,
    imm: Option<Imm>,
    link: Option<Entity>,
}
impl Snap {
    fn kinds(&self) -> [bool; 5] {
        [
            self.a.is_some(),
            self.b.is_some(),
            self.big.is_some(),
            self.imm.is_some(),
            self.link.is_some(),
        ]
    }
}
type WorldSnap = BTreeMap<Entity, Snap>;

#[derive(Resource, Default)]
struct TickEvents(Vec<u32>);

struct Rng(u64);
impl Rng {
    fn next(&mut self) -> u64 {
        let mut x = self.0;
        x ^= x << 13;
        x ^= x >> 7;
        x ^= x << 17;
        self.0 = x;
        x
    }
    fn below(&mut self, n: usize) -> usize {
        (self.next() % n as u64) as usize
    }
}

#[derive(Clone, Copy, Debug, PartialEq)]
enum Pol {
    Manual,
    EveryFrame,
    MaxRate,
}

fn mk(vis: VisibilityPolicy, pol: Pol, track: bool) -> App {
    let mut app = App::new();
    app.add_plugins((
        MinimalPlugins,
        RepliconPlugins
            .set(RepliconSharedPlugin {
                auth_method: AuthMethod::None,
            })
            .set(ServerPlugin {
                tick_policy: match pol {
                    Pol::Manual => TickPolicy::Manual,
                    Pol::EveryFrame => TickPolicy::EveryFrame,
                    Pol::MaxRate => TickPolicy::MaxTickRate(40), // 25ms, frames are 10ms
                },
                visibility_policy: vis,
                mutations_timeout: Duration::from_millis(200),
            }),
    ))
    .insert_resource(TimeUpdateStrategy::ManualDuration(Duration::from_millis(10)))
    .init_resource::<TickEvents>()
    .replicate::<A>()
    .replicate::<B>()
    .replicate::<Big>()
    .replicate::<Link>()
    .replicate::<Imm>()
    .add_systems(
        Update,
        |mut r: EventReader<MutateTickReceived>, mut t: ResMut<TickEvents>| {
            for e in r.read() {
                t.0.push(e.tick.get());
            }
        },
    );
    if track {
        app.track_mutate_messages();
    }
    if std::env::var("FZ_TRACE").is_ok() {
        app.add_plugins(bevy::log::LogPlugin { filter: "bevy_replicon=trace".into(), ..Default::default() });
    }
    app.finish();
    app
}

struct Cl {
    app: App,
    ent: Option<Entity>,
    s2c_upd: VecDeque<Bytes>,
    s2c_mut: Vec<Bytes>,
    c2s: VecDeque<(usize, Bytes)>,
    /// visible structure per tick at which something was sent on the updates channel
    x: BTreeMap<u32, WorldSnap>,
    last_hist: BTreeMap<Entity, u32>,
    last_update_tick: u32,
    /// mutate messages sent per tick (from wire) and delivered per tick
    sent_per_tick: BTreeMap<u32, usize>,
    delivered_per_tick: BTreeMap<u32, usize>,
    fired: BTreeSet<u32>,
}

struct H {
    rng: Rng,
    server: App,
    clients: Vec<Cl>,
    vis: VisibilityPolicy,
    pol: Pol,
    track: bool,
    ents: Vec<Entity>,
    vis_rec: BTreeMap<(usize, Entity), bool>,
    snaps: BTreeMap<u32, WorldSnap>,
    last_tick_seen: u32,
    log: Vec<String>,
    errs: Vec<String>,
    checks: usize,
}

fn vis_default(p: VisibilityPolicy) -> bool {
    !matches!(p, VisibilityPolicy::Whitelist)
}

fn read_varint(b: &[u8]) -> (u64, usize) {
    let mut v = 0u64;
    let mut i = 0;
    loop {
        let x = b[i];
        v |= ((x & 0x7f) as u64) << (7 * i);
        i += 1;
        if x & 0x80 == 0 {
            break;
        }
    }
    (v, i)
}

impl H {
    fn new(seed: u64, vis: VisibilityPolicy, pol: Pol, track: bool, nclients: usize) -> Self {
        let mut server = mk(vis, pol, track);
        server
            .world_mut()
            .resource_mut::<RepliconServer>()
            .set_running(true);
        let rng = Rng(seed | 1);
        let mut clients = vec![];
        for _ in 0..nclients {
            clients.push(Cl {
                app: mk(vis, pol, track),
                ent: None,
                s2c_upd: default(),
                s2c_mut: default(),
                c2s: default(),
                x: default(),
                last_hist: default(),
                last_update_tick: 0,
                sent_per_tick: default(),
                delivered_per_tick: default(),
                fired: default(),
            });
        }
        let mut h = Self {
            rng,
            server,
            clients,
            vis,
            pol,
            track,
            ents: vec![],
            vis_rec: default(),
            snaps: default(),
            last_tick_seen: 0,
            log: vec![],
            errs: vec![],
            checks: 0,
        };
        for i in 0..nclients {
            h.connect(i);
        }
        h
    }

    fn connect(&mut self, i: usize) {
        let max_size = [60, 200, 1200][self.rng.below(3)];
        let ent = self.server.world_mut().spawn(ConnectedClient { max_size }).id();
        let c = &mut self.clients[i];
        c.ent = Some(ent);
        c.app
            .world_mut()
            .resource_mut::<RepliconClient>()
            .set_status(RepliconClientStatus::Connected);
        self.log.push(format!("connect client{i} as {ent} max={max_size}"));
    }

    fn disconnect(&mut self, i: usize) {
        let c = &mut self.clients[i];
        let Some(ent) = c.ent.take() else { return };
        self.server.world_mut().entity_mut(ent).despawn();
        c.app
            .world_mut()
            .resource_mut::<RepliconClient>()
            .set_status(RepliconClientStatus::Disconnected);
        c.s2c_upd.clear();
        c.s2c_mut.clear();
        c.c2s.clear();
        c.x.clear();
        c.last_hist.clear();
        c.last_update_tick = 0;
        c.sent_per_tick.clear();
        c.delivered_per_tick.clear();
        c.fired.clear();
        self.vis_rec.retain(|(ci, _), _| *ci != i);
        // game-side cleanup of replicated entities
        let mut q = c.app.world_mut().query_filtered::<Entity, With<Replicated>>();
        let es: Vec<_> = q.iter(c.app.world()).collect();
        for e in es {
            if let Ok(em) = c.app.world_mut().get_entity_mut(e) {
                em.despawn();
            }
        }
        self.log.push(format!("disconnect client{i}"));
        // one frame for both so that resets run
        self.server_frame(false);
        self.clients[i].app.update();
        self.clients[i].app.world_mut().resource_mut::<TickEvents>().0.clear();
    }

    fn collect(&mut self) {
        let msgs: Vec<_> = self
            .server
            .world_mut()
            .resource_mut::<RepliconServer>()
            .drain_sent()
            .collect();
        let track = self.track;
        for (e, ch, m) in msgs {
            let Some(c) = self.clients.iter_mut().find(|c| c.ent == Some(e)) else {
                self.errs.push(format!("message for unknown client {e}"));
                continue;
            };
            match ch {
                0 => c.s2c_upd.push_back(m),
                1 => {
                    // decode header: update_tick, tick, [count], index
                    let (_, n1) = read_varint(&m);
                    let (t, _n2) = read_varint(&m[n1..]);
                    *c.sent_per_tick.entry(t as u32).or_default() += 1;
                    let _ = track;
                    c.s2c_mut.push(m)
                }
                _ => panic!(),
            }
        }
        for c in &mut self.clients {
            let msgs: Vec<_> = c
                .app
                .world_mut()
                .resource_mut::<RepliconClient>()
                .drain_sent()
                .collect();
            c.c2s.extend(msgs);
        }
    }

    fn snapshot(&self) -> WorldSnap {
        let mut out = WorldSnap::new();
        for &e in &self.ents {
            if let Ok(w) = self.server.world().get_entity(e) {
                if w.contains::<Replicated>() {
                    out.insert(
                        e,
                        Snap {
                            a: w.get::<A>().cloned(),
                            b: w.get::<B>().cloned(),
                            big: w.get::<Big>().cloned(),
                            imm: w.get::<Imm>().cloned(),
                            link: w.get::<Link>().map(|l| l.0),
                        },
                    );
                }
            }
        }
        out
    }

    fn server_frame(&mut self, tick: bool) {
        if tick && self.pol == Pol::Manual {
            let by = 1 + self.rng.below(2) as u32;
            self.server
                .world_mut()
                .resource_mut::<ServerTick>()
                .increment_by(by);
        }
        self.server.update();
        let t = self.server.world().resource::<ServerTick>().get();
        self.log.push(format!("server_frame tick_req={tick} now={t}"));
        if t != self.last_tick_seen {
            self.last_tick_seen = t;
            let snap = self.snapshot();
            for ci in 0..self.clients.len() {
                if self.clients[ci].ent.is_some() {
                    let x: WorldSnap = snap
                        .iter()
                        .filter(|(e, _)| self.expected_visible(ci, **e))
                        .map(|(e, s)| (*e, s.clone()))
                        .collect();
                    self.clients[ci].x.insert(t, x);
                }
            }
            self.snaps.insert(t, snap);
        }
        self.collect();
    }

    fn client_frame(&mut self, i: usize) {
        self.log.push(format!("client_frame {i}"));
        self.clients[i].app.update();
        self.collect();
        self.check_client(i);
    }

    fn check_client(&mut self, ci: usize) {
        self.checks += 1;
        let c = &mut self.clients[ci];
        if c.ent.is_none() {
            return;
        }
        let mut errs = vec![];
        let u = c.app.world().resource::<ServerUpdateTick>().get();
        if u < c.last_update_tick {
            errs.push(format!("client{ci}: update tick went back {} -> {u}", c.last_update_tick));
        }
        c.last_update_tick = u;
        let map = c.app.world().resource::<ServerEntityMap>();
        let to_client: BTreeMap<Entity, Entity> =
            map.to_client().iter().map(|(a, b)| (*a, *b)).collect();
        let to_server: BTreeMap<Entity, Entity> =
            map.to_server().iter().map(|(a, b)| (*a, *b)).collect();
        // C03
        let empty = WorldSnap::new();
        let expected = if u == 0 { Some(&empty) } else { c.x.get(&u) };
        match expected {
            None => errs.push(format!("client{ci}: update tick {u} has no server snapshot")),
            Some(x) => {
                let have: BTreeSet<Entity> = to_client
                    .iter()
                    .filter(|(_, ce)| {
                        c.app.world().get_entity(**ce).map_or(true, |w| {
                            w.contains::<Replicated>()
                                || w.contains::<ConfirmHistory>()
                                || w.contains::<A>()
                                || w.contains::<B>()
                                || w.contains::<Big>()
                                || w.contains::<Imm>()
                                || w.contains::<Link>()
                        })
                    })
                    .map(|(s, _)| *s)
                    .collect();
                let want: BTreeSet<Entity> = x.keys().copied().collect();
                if have != want {
                    errs.push(format!(
                        "client{ci} C03@{u}: missing {:?} extra {:?}",
                        want.difference(&have).collect::<Vec<_>>(),
                        have.difference(&want).collect::<Vec<_>>()
                    ));
                }
                for (s, snap) in x {
                    let Some(&ce) = to_client.get(s) else { continue };
                    let Ok(cw) = c.app.world().get_entity(ce) else {
                        errs.push(format!("client{ci} C03@{u}: {s}->{ce} dead"));
                        continue;
                    };
                    let kinds = [
                        cw.contains::<A>(),
                        cw.contains::<B>(),
                        cw.contains::<Big>(),
                        cw.contains::<Imm>(),
                        cw.contains::<Link>(),
                    ];
                    if kinds != snap.kinds() {
                        errs.push(format!(
                            "client{ci} C03@{u}: {s} kinds {:?} expected {:?}",
                            kinds,
                            snap.kinds()
                        ));
                    }
                    if !cw.contains::<Replicated>() {
                        errs.push(format!("client{ci} C03@{u}: {s} unmarked"));
                    }
                }
            }
        }
        for (s, ce) in &to_client {
            if to_server.get(ce) != Some(s) {
                errs.push(format!("client{ci}: map not bijective {s}->{ce}"));
            }
        }
        if to_client.len() != to_server.len() {
            errs.push(format!("client{ci}: map sizes differ"));
        }
        // C02
        let mut new_hist = BTreeMap::new();
        for (s, ce) in &to_client {
            let Ok(cw) = c.app.world().get_entity(*ce) else { continue };
            let Some(h) = cw.get::<ConfirmHistory>() else {
                continue;
            };
            let ht = h.last_tick().get();
            new_hist.insert(*s, ht);
            if let Some(&prev) = c.last_hist.get(s) {
                if ht < prev {
                    errs.push(format!("client{ci} C02: {s} confirmed tick went back {prev}->{ht}"));
                }
            }
            let Some(ws) = self.snaps.get(&ht) else {
                errs.push(format!("client{ci} C02: {s} confirmed tick {ht} unknown"));
                continue;
            };
            let Some(snap) = ws.get(s) else {
                errs.push(format!("client{ci} C02: {s} absent from snapshot {ht}"));
                continue;
            };
            if let (Some(x), Some(y)) = (cw.get::<A>(), &snap.a) {
                if x != y {
                    errs.push(format!("client{ci} C02: {s}@{ht} A {x:?} vs {y:?}"));
                }
            }
            if let (Some(x), Some(y)) = (cw.get::<B>(), &snap.b) {
                if x != y {
                    errs.push(format!("client{ci} C02: {s}@{ht} B {x:?} vs {y:?}"));
                }
            }
            if let (Some(x), Some(y)) = (cw.get::<Big>(), &snap.big) {
                if x != y {
                    errs.push(format!("client{ci} C02: {s}@{ht} Big differs"));
                }
            }
            if let (Some(x), Some(y)) = (cw.get::<Imm>(), &snap.imm) {
                if x != y {
                    errs.push(format!("client{ci} C02: {s}@{ht} Imm {x:?} vs {y:?}"));
                }
            }

        }
        c.last_hist = new_hist;
        // C12 e2e
        if self.track {
            let fired: Vec<u32> = std::mem::take(&mut c.app.world_mut().resource_mut::<TickEvents>().0);
            for t in fired {
                if !c.fired.insert(t) {
                    errs.push(format!("client{ci} C12: tick {t} fired twice"));
                }
                let sent = c.sent_per_tick.get(&t).copied().unwrap_or(0);
                let deliv = c.delivered_per_tick.get(&t).copied().unwrap_or(0);
                if sent == 0 || sent != deliv {
                    errs.push(format!("client{ci} C12: tick {t} fired with sent {sent} delivered {deliv}"));
                }
                if !c.app.world().resource::<ServerMutateTicks>().contains(RepliconTick::new(t)) {
                    errs.push(format!("client{ci} C12: tick {t} fired but not contained"));
                }
            }
        }
        if !errs.is_empty() {
            self.errs.extend(errs);
        }
    }

    fn alive_repl(&self) -> Vec<Entity> {
        self.ents
            .iter()
            .copied()
            .filter(|&e| {
                self.server
                    .world()
                    .get_entity(e)
                    .is_ok_and(|e| e.contains::<Replicated>())
            })
            .collect()
    }

    fn unlink_targets(&mut self, target: Entity) {
        let ents = self.ents.clone();
        for e in ents {
            if let Ok(mut em) = self.server.world_mut().get_entity_mut(e) {
                if em.get::<Link>().is_some_and(|l| l.0 == target) {
                    em.remove::<Link>();
                }
            }
        }
    }

    fn server_op(&mut self) {
        let alive: Vec<Entity> = self
            .ents
            .iter()
            .copied()
            .filter(|&e| self.server.world().get_entity(e).is_ok())
            .collect();
        let k = self.rng.below(13);
        let pick = if alive.is_empty() {
            None
        } else {
            Some(alive[self.rng.below(alive.len())])
        };
        let v = self.rng.next() as u32 % 1000;
        match (k, pick) {
            (0, _) | (1, _) | (_, None) => {
                let mut e = self.server.world_mut().spawn(Replicated);
                if v % 2 == 0 {
                    e.insert(A(v));
                }
                if v % 3 == 0 {
                    e.insert(B(v));
                }
                if v % 5 == 0 {
                    e.insert(Big(vec![v as u8; (v % 150) as usize]));
                }
                if v % 7 == 0 {
                    e.insert(Imm(v));
                }
                let id = e.id();
                self.ents.push(id);
                self.log.push(format!("spawn {id} v={v}"));
            }
            (2, Some(e)) => {
                self.unlink_targets(e);
                self.server.world_mut().entity_mut(e).despawn();
                self.vis_rec.retain(|(_, x), _| *x != e);
                self.log.push(format!("despawn {e}"));
            }
            (3, Some(e)) => {
                let mut em = self.server.world_mut().entity_mut(e);
                match v % 4 {
                    0 => {
                        em.insert(A(v));
                    }
                    1 => {
                        em.insert(B(v));
                    }
                    2 => {
                        em.insert(Imm(v));
                    }
                    _ => {
                        em.insert(Big(vec![v as u8; (v % 150) as usize]));
                    }
                }
                self.log.push(format!("insert {e} kind={} v={v}", v % 4));
            }
            (4, Some(e)) => {
                let mut em = self.server.world_mut().entity_mut(e);
                match v % 5 {
                    0 => {
                        em.remove::<A>();
                    }
                    1 => {
                        em.remove::<B>();
                    }
                    2 => {
                        em.remove::<Big>();
                    }
                    3 => {
                        em.remove::<Imm>();
                    }
                    _ => {
                        em.remove::<Link>();
                    }
                }
                self.log.push(format!("remove {e} kind={}", v % 5));
            }
            (5, Some(e)) | (6, Some(e)) | (7, Some(e)) | (12, Some(e)) => {
                let mut em = self.server.world_mut().entity_mut(e);
                if let Some(mut a) = em.get_mut::<A>() {
                    a.0 = v;
                }
                if v % 2 == 0 {
                    if let Some(mut b) = em.get_mut::<B>() {
                        b.0 = v;
                    }
                }
                if v % 3 == 0 {
                    if let Some(mut b) = em.get_mut::<Big>() {
                        b.0 = vec![v as u8; (v % 150) as usize];
                    }
                }
                self.log.push(format!("mutate {e} v={v}"));
            }
            (8, Some(e)) if matches!(self.vis, VisibilityPolicy::All) => {
                let has = self.server.world().entity(e).contains::<Replicated>();
                if has {
                    self.unlink_targets(e);
                    self.server.world_mut().entity_mut(e).remove::<Replicated>();
                } else {
                    self.server.world_mut().entity_mut(e).insert(Replicated);
                }
                self.log.push(format!("toggle marker {e} now={}", !has));
            }
            (9, Some(e)) | (10, Some(e)) => {
                if !matches!(self.vis, VisibilityPolicy::All) {
                    let ci = self.rng.below(self.clients.len());
                    if let Some(ce) = self.clients[ci].ent {
                        let val = v % 2 == 0;
                        self.server
                            .world_mut()
                            .get_mut::<ClientVisibility>(ce)
                            .unwrap()
                            .set_visibility(e, val);
                        self.vis_rec.insert((ci, e), val);
                        self.log.push(format!("set_vis client{ci} {e} {val}"));
                    }
                }
            }
            (11, Some(e)) => {
                if matches!(self.vis, VisibilityPolicy::All) {
                    let repl = self.alive_repl();
                    if !repl.is_empty() {
                        let t = repl[self.rng.below(repl.len())];
                        if t != e {
                            self.server.world_mut().entity_mut(e).insert(Link(t));
                            self.log.push(format!("link {e} -> {t}"));
                        }
                    }
                }
            }
            _ => {}
        }
    }

    fn deliver_mut(&mut self, ci: usize, i: usize) {
        let c = &mut self.clients[ci];
        let m = c.s2c_mut.remove(i);
        let (_, n1) = read_varint(&m);
        let (t, _) = read_varint(&m[n1..]);
        *c.delivered_per_tick.entry(t as u32).or_default() += 1;
        c.app
            .world_mut()
            .resource_mut::<RepliconClient>()
            .insert_received(1usize, m);
    }

    fn net_op(&mut self) {
        let ci = self.rng.below(self.clients.len());
        if self.clients[ci].ent.is_none() {
            return;
        }
        let k = self.rng.below(6);
        let r = self.rng.next();
        match k {
            0 | 1 => {
                let n = 1 + (r % 3) as usize;
                let c = &mut self.clients[ci];
                for _ in 0..n {
                    if let Some(m) = c.s2c_upd.pop_front() {
                        c.app
                            .world_mut()
                            .resource_mut::<RepliconClient>()
                            .insert_received(0usize, m);
                        self.log.push(format!("deliver upd client{ci}"));
                    }
                }
            }
            2 | 3 => {
                if !self.clients[ci].s2c_mut.is_empty() {
                    let i = (r as usize) % self.clients[ci].s2c_mut.len();
                    self.deliver_mut(ci, i);
                    self.log.push(format!("deliver mut#{i} client{ci}"));
                }
            }
            4 => {
                let c = &mut self.clients[ci];
                if !c.s2c_mut.is_empty() {
                    let i = (r as usize) % c.s2c_mut.len();
                    c.s2c_mut.remove(i);
                    self.log.push(format!("drop mut#{i} client{ci}"));
                }
            }
            _ => {
                let n = 1 + (r % 3) as usize;
                let c = &mut self.clients[ci];
                for _ in 0..n {
                    if let Some((ch, m)) = c.c2s.pop_front() {
                        self.server
                            .world_mut()
                            .resource_mut::<RepliconServer>()
                            .insert_received(c.ent.unwrap(), ch, m);
                        self.log.push(format!("deliver ack client{ci}"));
                    }
                }
            }
        }
    }

    fn quiesce(&mut self) {
        for i in 0..self.clients.len() {
            if self.clients[i].ent.is_none() {
                self.connect(i);
            }
        }
        for _ in 0..14 {
            self.server_frame(true);
            for ci in 0..self.clients.len() {
                {
                    let c = &mut self.clients[ci];
                    let mut rc = c.app.world_mut().resource_mut::<RepliconClient>();
                    while let Some(m) = c.s2c_upd.pop_front() {
                        rc.insert_received(0usize, m);
                    }
                }
                while !self.clients[ci].s2c_mut.is_empty() {
                    self.deliver_mut(ci, 0);
                }
                self.client_frame(ci);
                let c = &mut self.clients[ci];
                let mut rs = self.server.world_mut().resource_mut::<RepliconServer>();
                while let Some((ch, m)) = c.c2s.pop_front() {
                    rs.insert_received(c.ent.unwrap(), ch, m);
                }
            }
        }
    }

    fn expected_visible(&self, ci: usize, e: Entity) -> bool {
        self.vis_rec
            .get(&(ci, e))
            .copied()
            .unwrap_or(vis_default(self.vis))
    }

    fn compare_final(&mut self) {
        // C01: at quiescence the client's update tick snapshot must equal the current server state
        let now = self.snapshot();
        for ci in 0..self.clients.len() {
            let want: WorldSnap = now
                .iter()
                .filter(|(e, _)| self.expected_visible(ci, **e))
                .map(|(e, s)| (*e, s.clone()))
                .collect();
            let c = &mut self.clients[ci];
            let map = c.app.world().resource::<ServerEntityMap>();
            let to_client: BTreeMap<Entity, Entity> =
                map.to_client().iter().map(|(a, b)| (*a, *b)).collect();
            let have: BTreeSet<Entity> = to_client
                .iter()
                .filter(|(_, ce)| {
                    c.app.world().get_entity(**ce).map_or(true, |w| {
                        w.contains::<Replicated>() || w.contains::<ConfirmHistory>()
                    })
                })
                .map(|(s, _)| *s)
                .collect();
            let wantk: BTreeSet<Entity> = want.keys().copied().collect();
            if have != wantk {
                self.errs.push(format!(
                    "client{ci} C01: missing {:?} extra {:?}",
                    wantk.difference(&have).collect::<Vec<_>>(),
                    have.difference(&wantk).collect::<Vec<_>>()
                ));
            }
            for (s, snap) in &want {
                let Some(ce) = to_client.get(s) else { continue };
                let Ok(cw) = c.app.world().get_entity(*ce) else { continue };
                let got = Snap {
                    a: cw.get::<A>().cloned(),
                    b: cw.get::<B>().cloned(),
                    big: cw.get::<Big>().cloned(),
                    imm: cw.get::<Imm>().cloned(),
                    link: cw.get::<Link>().and_then(|l| {
                        map.to_server().get(&l.0).copied()
                    }),
                };
                if &got != snap {
                    self.errs.push(format!("client{ci} C01: {s} {got:?} vs {snap:?}"));
                }
            }
            let mut q = c.app.world_mut().query_filtered::<Entity, With<Replicated>>();
            let marked = q.iter(c.app.world()).count();
            if marked != want.len() {
                self.errs.push(format!("client{ci} C01: {marked} marked entities, expected {}", want.len()));
            }
        }
    }
}

fn run(seed: u64, steps: usize, verbose: bool) -> Result<usize, String> {
    let mut r = Rng(seed.wrapping_mul(0x9E3779B97F4A7C15) | 1);
    let vis = [
        VisibilityPolicy::All,
        VisibilityPolicy::Blacklist,
        VisibilityPolicy::Whitelist,
    ][r.below(3)];
    let pol = [Pol::Manual, Pol::Manual, Pol::EveryFrame, Pol::MaxRate][r.below(4)];
    let track = r.below(2) == 0;
    let n = 1 + r.below(3);
    let mut h = H::new(seed, vis, pol, track, n);
    let res = catch_unwind(AssertUnwindSafe(|| {
        h.server_frame(true);
        for _ in 0..steps {
            match h.rng.below(21) {
                0..=7 => h.server_op(),
                8 | 9 => h.server_frame(true),
                10 | 11 => h.server_frame(false),
                12..=15 => {
                    let ci = h.rng.below(h.clients.len());
                    h.client_frame(ci)
                }
                16 => {
                    let ci = h.rng.below(h.clients.len());
                    if h.rng.below(4) == 0 {
                        if h.clients[ci].ent.is_some() {
                            h.disconnect(ci);
                        } else {
                            h.connect(ci);
                        }
                    }
                }
                _ => h.net_op(),
            }
            if !h.errs.is_empty() {
                break;
            }
        }
        if h.errs.is_empty() {
            h.quiesce();
            h.compare_final();
        }
    }));
    let desc = format!("seed {seed} vis {vis:?} pol {pol:?} track {track} n {n}");
    match res {
        Ok(()) if h.errs.is_empty() => Ok(h.checks),
        Ok(()) => {
            if verbose {
                for l in &h.log {
                    println!("  {l}");
                }
            }
            Err(format!("{desc}: {:?}", &h.errs[..h.errs.len().min(4)]))
        }
        Err(_) => {
            if verbose {
                for l in &h.log {
                    println!("  {l}");
                }
            }
            Err(format!("{desc}: PANIC"))
        }
    }
}

fn main() {
    let args: Vec<String> = std::env::args().collect();
    let from: u64 = args[1].parse().unwrap();
    let to: u64 = args[2].parse().unwrap();
    let steps: usize = args[3].parse().unwrap();
    let verbose = args.get(4).is_some();
    let mut bad = 0;
    let mut checks = 0;
    for seed in from..to {
        match run(seed, steps, verbose) {
            Ok(c) => checks += c,
            Err(e) => {
                println!("FAIL {e}");
                bad += 1;
            }
        }
    }
    println!("done {} seeds, {bad} failures, {checks} per-frame checks", to - from);
}
