//! C18 scene export random probe + C14 hash probe
use bevy::{prelude::*, scene::DynamicScene, scene::serde::SceneDeserializer};
use bevy_replicon::{prelude::*, scene};
use serde::{Deserialize, Serialize, de::DeserializeSeed};
use std::collections::{BTreeMap, BTreeSet};

macro_rules! comp { ($n:ident) => {
    #[derive(Component, Serialize, Deserialize, Clone, Copy, PartialEq, Debug, Reflect, Default)]
    #[reflect(Component)]
    struct $n(u32);
}; }
comp!(A); comp!(B); comp!(C); comp!(D);
// reflected but not registered in the type registry
#[derive(Component, Serialize, Deserialize, Clone, Copy, PartialEq, Debug, Reflect, Default)]
#[reflect(Component)]
struct Unreg(u32);
// not reflected at all
#[derive(Component, Serialize, Deserialize, Clone, Copy, PartialEq, Debug, Default)]
struct Plain(u32);
// reflected, registered, not replicated
#[derive(Component, Clone, Copy, PartialEq, Debug, Reflect, Default)]
#[reflect(Component)]
struct Local(u32);

struct Rng(u64);
impl Rng { fn next(&mut self) -> u64 { let mut x = self.0; x ^= x << 13; x ^= x >> 7; x ^= x << 17; self.0 = x; x } fn below(&mut self, n: usize) -> usize { (self.next() % n as u64) as usize } }

fn main() {
    let n: u64 = std::env::args().nth(1).map(|s| s.parse().unwrap()).unwrap_or(200);
    let mut bad = 0;
    for seed in 0..n {
        let mut rng = Rng(seed.wrapping_mul(0x9E3779B97F4A7C15) | 1);
        let mut app = App::new();
        app.add_plugins((MinimalPlugins, RepliconPlugins))
            .register_type::<A>().register_type::<B>().register_type::<C>().register_type::<D>().register_type::<Local>();
        // random rule set; record which component kinds can be selected: a component is selected on an entity iff some rule
        // containing it has all its components present on the entity
        let mut rules: Vec<Vec<u8>> = vec![];
        for _ in 0..(1 + rng.below(5)) {
            match rng.below(9) {
                0 => { app.replicate::<A>(); rules.push(vec![0]); }
                1 => { app.replicate::<B>(); rules.push(vec![1]); }
                2 => { app.replicate::<C>(); rules.push(vec![2]); }
                3 => { app.replicate_bundle::<(A, B)>(); rules.push(vec![0, 1]); }
                4 => { app.replicate_bundle::<(B, C, D)>(); rules.push(vec![1, 2, 3]); }
                5 => { app.replicate_with_priority(5, (RuleFns::<A>::default(), RuleFns::<C>::default())); rules.push(vec![0, 2]); }
                6 => { app.replicate::<Unreg>(); rules.push(vec![4]); }
                7 => { app.replicate::<Plain>(); rules.push(vec![5]); }
                _ => { app.replicate_bundle::<(A, Unreg)>(); rules.push(vec![0, 4]); }
            }
        }
        app.finish();
        let mut expected: BTreeMap<Entity, BTreeMap<u8, u32>> = BTreeMap::new();
        let mut all = vec![];
        for _ in 0..(1 + rng.below(6)) {
            let marked = rng.below(4) != 0;
            let mut e = app.world_mut().spawn_empty();
            let mut have: BTreeMap<u8, u32> = BTreeMap::new();
            let v = rng.next() as u32 % 1000;
            if rng.below(2) == 0 { e.insert(A(v)); have.insert(0, v); }
            if rng.below(2) == 0 { e.insert(B(v + 1)); have.insert(1, v + 1); }
            if rng.below(2) == 0 { e.insert(C(v + 2)); have.insert(2, v + 2); }
            if rng.below(2) == 0 { e.insert(D(v + 3)); have.insert(3, v + 3); }
            if rng.below(3) == 0 { e.insert(Unreg(v)); have.insert(4, v); }
            if rng.below(3) == 0 { e.insert(Plain(v)); have.insert(5, v); }
            if rng.below(3) == 0 { e.insert(Local(v)); }
            if marked { e.insert(Replicated); }
            let id = e.id();
            all.push(id);
            if marked {
                let mut sel = BTreeMap::new();
                for r in &rules {
                    if r.iter().all(|k| have.contains_key(k)) {
                        for k in r { if *k < 4 { sel.insert(*k, have[k]); } }
                    }
                }
                expected.insert(id, sel);
            }
        }
        let mut sc = DynamicScene::default();
        // pre-existing content: an unrelated entity and (sometimes) one of the marked entities with a Local component
        let mut pre_local: BTreeSet<Entity> = BTreeSet::new();
        if rng.below(2) == 0 {
            if let Some((&e, _)) = expected.iter().next() {
                sc.entities.push(bevy::scene::DynamicEntity { entity: e, components: vec![Box::new(Local(7)).into_partial_reflect()] });
                pre_local.insert(e);
            }
        }
        let r = std::panic::catch_unwind(std::panic::AssertUnwindSafe(|| scene::replicate_into(&mut sc, app.world())));
        if r.is_err() { bad += 1; println!("seed {seed}: PANIC in replicate_into rules {rules:?}"); continue; }
        let mut errs = vec![];
        let mut seen: BTreeMap<Entity, usize> = BTreeMap::new();
        for de in &sc.entities {
            *seen.entry(de.entity).or_default() += 1;
            let names: Vec<String> = de.components.iter().map(|c| c.reflect_type_path().to_string()).collect();
            let mut uniq = BTreeSet::new();
            for nme in &names { if !uniq.insert(nme.clone()) { errs.push(format!("{} has {nme} twice", de.entity)); } }
            let Some(exp) = expected.get(&de.entity) else { errs.push(format!("unexpected scene entity {}", de.entity)); continue };
            let mut got: BTreeMap<u8, u32> = BTreeMap::new();
            for c in &de.components {
                let p = c.reflect_type_path();
                let val = |c: &Box<dyn PartialReflect>| -> u32 { if let bevy::reflect::ReflectRef::TupleStruct(ts) = c.reflect_ref() { *ts.field(0).unwrap().try_downcast_ref::<u32>().unwrap() } else { 0 } };
                if p.ends_with("::A") { got.insert(0, val(c)); } else if p.ends_with("::B") { got.insert(1, val(c)); } else if p.ends_with("::C") { got.insert(2, val(c)); } else if p.ends_with("::D") { got.insert(3, val(c)); }
                else if p.ends_with("::Local") { if !pre_local.contains(&de.entity) { errs.push(format!("{} exported unreplicated Local", de.entity)); } }
                else { errs.push(format!("{} exported {p}", de.entity)); }
            }
            if &got != exp { errs.push(format!("{}: got {got:?} expected {exp:?}", de.entity)); }
        }
        for e in expected.keys() { if seen.get(e) != Some(&1) { errs.push(format!("{e} appears {:?} times", seen.get(e))); } }
        let registry = app.world().resource::<AppTypeRegistry>().read();
        match sc.serialize(&registry) {
            Err(e) => errs.push(format!("serialize failed {e}")),
            Ok(s) => {
                let mut de = bevy::asset::ron::Deserializer::from_str(&s).unwrap();
                if let Err(e) = (SceneDeserializer { type_registry: &registry }).deserialize(&mut de) { errs.push(format!("read back failed: {e}")); }
            }
        }
        if !errs.is_empty() { bad += 1; println!("seed {seed} rules {rules:?}: {:?}", &errs[..errs.len().min(3)]); }
    }
    println!("bad {bad} of {n}");
}
