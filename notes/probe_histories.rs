use bevy::{ecs::entity::MapEntities, prelude::*};
use bevy_replicon::{
    client::{ServerUpdateTick, confirm_history::ConfirmHistory},
    prelude::*,
    server::server_tick::ServerTick,
    shared::server_entity_map::ServerEntityMap,
};
use bytes::Bytes;
use serde::{Deserialize, Serialize};
use std::collections::VecDeque;

#[derive(Component, Serialize, Deserialize, Clone, Copy, PartialEq, Debug)]
struct A(u32);
#[derive(Component, Serialize, Deserialize, Clone, Copy, PartialEq, Debug)]
struct B(u32);
#[derive(Component, Serialize, Deserialize, Clone, Copy, PartialEq, Debug)]
struct P(u32);
#[derive(Component, Serialize, Deserialize, Clone, Copy, PartialEq, Debug, MapEntities)]
struct Link(#[entities] Entity);

fn mk(vis: VisibilityPolicy, auth: AuthMethod) -> App {
    let mut app = App::new();
    app.add_plugins((
        MinimalPlugins,
        RepliconPlugins
            .set(RepliconSharedPlugin { auth_method: auth })
            .set(ServerPlugin {
                tick_policy: TickPolicy::Manual,
                visibility_policy: vis,
                ..Default::default()
            }),
    ))
    .replicate::<A>()
    .replicate::<B>()
    .replicate_periodic::<P>(2)
    .replicate::<Link>();
    app
}

/// Per-direction queues.
#[derive(Default)]
struct Net {
    s2c: VecDeque<(usize, Bytes)>,
    c2s: VecDeque<(usize, Bytes)>,
}

fn tick(server: &mut App) {
    server.world_mut().resource_mut::<ServerTick>().increment();
}

fn collect(server: &mut App, client: &mut App, ce: Entity, net: &mut Net) {
    let mut s = server.world_mut().resource_mut::<RepliconServer>();
    let msgs: Vec<_> = s.drain_sent().collect();
    for (e, ch, m) in msgs {
        assert_eq!(e, ce);
        net.s2c.push_back((ch, m));
    }
    let mut c = client.world_mut().resource_mut::<RepliconClient>();
    for (ch, m) in c.drain_sent() {
        net.c2s.push_back((ch, m));
    }
}

fn deliver_s2c(client: &mut App, net: &mut Net, pred: impl Fn(usize) -> bool) {
    let mut c = client.world_mut().resource_mut::<RepliconClient>();
    let mut keep = VecDeque::new();
    while let Some((ch, m)) = net.s2c.pop_front() {
        if pred(ch) {
            c.insert_received(ch, m);
        } else {
            keep.push_back((ch, m));
        }
    }
    net.s2c = keep;
}

fn deliver_c2s(server: &mut App, ce: Entity, net: &mut Net) {
    let mut s = server.world_mut().resource_mut::<RepliconServer>();
    while let Some((ch, m)) = net.c2s.pop_front() {
        s.insert_received(ce, ch, m);
    }
}

fn setup(vis: VisibilityPolicy) -> (App, App, Entity, Net) {
    let mut server = mk(vis, AuthMethod::None);
    let mut client = mk(vis, AuthMethod::None);
    server.finish();
    client.finish();
    server
        .world_mut()
        .resource_mut::<RepliconServer>()
        .set_running(true);
    let ce = server
        .world_mut()
        .spawn(ConnectedClient { max_size: 1200 })
        .id();
    client
        .world_mut()
        .resource_mut::<RepliconClient>()
        .set_status(RepliconClientStatus::Connected);
    server.update();
    client.update();
    (server, client, ce, Net::default())
}

/// Full lockstep round: server frame (optionally tick), deliver all, client frame, deliver acks.
fn round(server: &mut App, client: &mut App, ce: Entity, net: &mut Net, do_tick: bool) {
    if do_tick {
        tick(server);
    }
    server.update();
    collect(server, client, ce, net);
    deliver_s2c(client, net, |_| true);
    client.update();
    collect(server, client, ce, net);
    deliver_c2s(server, ce, net);
}

fn dump_client(client: &mut App) -> String {
    let mut out = String::new();
    let map = client.world().resource::<ServerEntityMap>();
    let mut pairs: Vec<_> = map.to_client().iter().map(|(s, c)| (*s, *c)).collect();
    pairs.sort();
    for (s, c) in pairs {
        let w = client.world();
        let e = w.get_entity(c);
        match e {
            Ok(e) => out += &format!(
                "  srv {s} -> cli {c}: repl={} A={:?} B={:?} P={:?} Link={:?} hist={:?}\n",
                e.contains::<Replicated>(),
                e.get::<A>(),
                e.get::<B>(),
                e.get::<P>(),
                e.get::<Link>(),
                e.get::<ConfirmHistory>().map(|h| h.last_tick())
            ),
            Err(_) => out += &format!("  srv {s} -> cli {c}: DEAD\n"),
        }
    }
    let mut q = client.world_mut().query_filtered::<Entity, With<Replicated>>();
    let n = q.iter(client.world()).count();
    out += &format!("  replicated entities on client: {n}, update tick {:?}\n", client.world().resource::<ServerUpdateTick>());
    out
}

fn p1_removal_removal() {
    println!("== P1 removal then removal in one tick window");
    let (mut s, mut c, ce, mut net) = setup(VisibilityPolicy::All);
    let e = s.world_mut().spawn((Replicated, A(1), B(1))).id();
    round(&mut s, &mut c, ce, &mut net, true);
    round(&mut s, &mut c, ce, &mut net, true);
    s.world_mut().entity_mut(e).remove::<A>();
    round(&mut s, &mut c, ce, &mut net, false);
    s.world_mut().entity_mut(e).remove::<B>();
    round(&mut s, &mut c, ce, &mut net, false);
    for _ in 0..4 {
        round(&mut s, &mut c, ce, &mut net, true);
    }
    print!("{}", dump_client(&mut c));
}

fn p2_removal_despawn() {
    println!("== P2 removal then despawn in one tick window");
    let (mut s, mut c, ce, mut net) = setup(VisibilityPolicy::All);
    let e = s.world_mut().spawn((Replicated, A(1), B(1))).id();
    round(&mut s, &mut c, ce, &mut net, true);
    round(&mut s, &mut c, ce, &mut net, true);
    s.world_mut().entity_mut(e).remove::<A>();
    round(&mut s, &mut c, ce, &mut net, false);
    s.world_mut().entity_mut(e).despawn();
    round(&mut s, &mut c, ce, &mut net, false);
    for _ in 0..4 {
        round(&mut s, &mut c, ce, &mut net, true);
    }
    print!("{}", dump_client(&mut c));
}

fn p3_hide_despawn(vis: VisibilityPolicy) {
    println!("== P3 hide + despawn of held entity, policy {vis:?}");
    let (mut s, mut c, ce, mut net) = setup(vis);
    let e = s.world_mut().spawn((Replicated, A(1), B(1))).id();
    s.world_mut()
        .get_mut::<ClientVisibility>(ce)
        .unwrap()
        .set_visibility(e, true);
    round(&mut s, &mut c, ce, &mut net, true);
    round(&mut s, &mut c, ce, &mut net, true);
    print!("before:\n{}", dump_client(&mut c));
    s.world_mut()
        .get_mut::<ClientVisibility>(ce)
        .unwrap()
        .set_visibility(e, false);
    s.world_mut().entity_mut(e).despawn();
    for _ in 0..4 {
        round(&mut s, &mut c, ce, &mut net, true);
    }
    print!("after:\n{}", dump_client(&mut c));
}

fn p4_periodic() {
    println!("== P4 periodic component + every-tick component acked in between");
    let (mut s, mut c, ce, mut net) = setup(VisibilityPolicy::All);
    let e = s.world_mut().spawn((Replicated, A(1), P(1))).id();
    round(&mut s, &mut c, ce, &mut net, true);
    round(&mut s, &mut c, ce, &mut net, true);
    // make the next tick odd
    while s.world().resource::<ServerTick>().get() % 2 == 1 {
        round(&mut s, &mut c, ce, &mut net, true);
    }
    println!("tick before change {:?}", s.world().resource::<ServerTick>());
    s.world_mut().get_mut::<A>(e).unwrap().0 = 2;
    s.world_mut().get_mut::<P>(e).unwrap().0 = 2;
    for _ in 0..6 {
        round(&mut s, &mut c, ce, &mut net, true);
    }
    println!("server P={:?} tick {:?}", s.world().get::<P>(e), s.world().resource::<ServerTick>());
    print!("{}", dump_client(&mut c));

    println!("-- P4b periodic alone but structural insert on odd tick");
    let (mut s, mut c, ce, mut net) = setup(VisibilityPolicy::All);
    let e = s.world_mut().spawn((Replicated, P(1))).id();
    round(&mut s, &mut c, ce, &mut net, true);
    while s.world().resource::<ServerTick>().get() % 2 == 1 {
        round(&mut s, &mut c, ce, &mut net, true);
    }
    s.world_mut().get_mut::<P>(e).unwrap().0 = 2;
    round(&mut s, &mut c, ce, &mut net, false);
    s.world_mut().entity_mut(e).insert(B(7));
    for _ in 0..6 {
        round(&mut s, &mut c, ce, &mut net, true);
    }
    print!("{}", dump_client(&mut c));
}

fn p5_ref_before_spawn() {
    println!("== P5 reference before spawn");
    let (mut s, mut c, ce, mut net) = setup(VisibilityPolicy::All);
    // make archetype for (Replicated, Link) iterate before (Replicated, A)
    let tmp = s.world_mut().spawn((Replicated, Link(Entity::PLACEHOLDER))).id();
    s.world_mut().entity_mut(tmp).despawn();
    round(&mut s, &mut c, ce, &mut net, true);
    let y = s.world_mut().spawn((Replicated, A(5))).id();
    let _x = s.world_mut().spawn((Replicated, Link(y))).id();
    for _ in 0..3 {
        round(&mut s, &mut c, ce, &mut net, true);
    }
    print!("{}", dump_client(&mut c));
}

fn p_f1_acked_buffered() {
    println!("== F1 acked-but-buffered mutate message overtaken by later update");
    let (mut s, mut c, ce, mut net) = setup(VisibilityPolicy::All);
    round(&mut s, &mut c, ce, &mut net, true);
    let e = s.world_mut().spawn((Replicated, A(1))).id();
    // tick: U1 spawn, held
    tick(&mut s);
    s.update();
    collect(&mut s, &mut c, ce, &mut net);
    // tick: A=2 -> mutate
    s.world_mut().get_mut::<A>(e).unwrap().0 = 2;
    tick(&mut s);
    s.update();
    collect(&mut s, &mut c, ce, &mut net);
    println!("in flight: {:?}", net.s2c.iter().map(|(ch, m)| (*ch, m.len())).collect::<Vec<_>>());
    // deliver only mutations (channel 1)
    deliver_s2c(&mut c, &mut net, |ch| ch == 1);
    c.update();
    collect(&mut s, &mut c, ce, &mut net);
    deliver_c2s(&mut s, ce, &mut net);
    s.update(); // receives ack
    // tick: insert B -> U3
    s.world_mut().entity_mut(e).insert(B(9));
    tick(&mut s);
    s.update();
    collect(&mut s, &mut c, ce, &mut net);
    println!("in flight: {:?}", net.s2c.iter().map(|(ch, m)| (*ch, m.len())).collect::<Vec<_>>());
    deliver_s2c(&mut c, &mut net, |_| true);
    c.update();
    for _ in 0..5 {
        round(&mut s, &mut c, ce, &mut net, true);
    }
    println!("server A={:?}", s.world().get::<A>(e));
    print!("{}", dump_client(&mut c));
}

fn p11_idle_related() {
    println!("== P11 idle traffic with related entities");
    let mut server = mk(VisibilityPolicy::All, AuthMethod::None);
    let mut client = mk(VisibilityPolicy::All, AuthMethod::None);
    server.sync_related_entities::<ChildOf>();
    client.sync_related_entities::<ChildOf>();
    server.finish();
    client.finish();
    server.world_mut().resource_mut::<RepliconServer>().set_running(true);
    let ce = server.world_mut().spawn(ConnectedClient { max_size: 1200 }).id();
    client.world_mut().resource_mut::<RepliconClient>().set_status(RepliconClientStatus::Connected);
    let mut net = Net::default();
    let p = server.world_mut().spawn((Replicated, A(1))).id();
    server.world_mut().spawn((Replicated, A(2), ChildOf(p)));
    for _ in 0..5 {
        round(&mut server, &mut client, ce, &mut net, true);
    }
    for i in 0..3 {
        tick(&mut server);
        server.update();
        let msgs: Vec<_> = server.world_mut().resource_mut::<RepliconServer>().drain_sent().map(|(_, ch, m)| (ch, m.len())).collect();
        println!("idle tick {i}: sent {msgs:?}");
    }
}

fn p14_marker_toggle_blacklist() {
    println!("== P14 blacklist hidden entity, marker toggled");
    let (mut s, mut c, ce, mut net) = setup(VisibilityPolicy::Blacklist);
    let e = s.world_mut().spawn((Replicated, A(1))).id();
    s.world_mut().get_mut::<ClientVisibility>(ce).unwrap().set_visibility(e, false);
    round(&mut s, &mut c, ce, &mut net, true);
    round(&mut s, &mut c, ce, &mut net, true);
    print!("hidden:\n{}", dump_client(&mut c));
    s.world_mut().entity_mut(e).remove::<Replicated>();
    round(&mut s, &mut c, ce, &mut net, true);
    s.world_mut().entity_mut(e).insert(Replicated);
    round(&mut s, &mut c, ce, &mut net, true);
    round(&mut s, &mut c, ce, &mut net, true);
    println!("is_visible now: {}", s.world().get::<ClientVisibility>(ce).unwrap().is_visible(e));
    print!("after toggle:\n{}", dump_client(&mut c));
}

fn main() {
    let which = std::env::args().nth(1).unwrap_or_default();
    match which.as_str() {
        "p1" => p1_removal_removal(),
        "p2" => p2_removal_despawn(),
        "p3" => {
            p3_hide_despawn(VisibilityPolicy::Blacklist);
            p3_hide_despawn(VisibilityPolicy::Whitelist);
        }
        "p4" => p4_periodic(),
        "p5" => p5_ref_before_spawn(),
        "f1" => p_f1_acked_buffered(),
        "p11" => p11_idle_related(),
        "p14" => p14_marker_toggle_blacklist(),
        _ => println!("unknown"),
    }
}
