use bevy::{prelude::*, scene::DynamicScene};
use bevy_replicon::{
    client::confirm_history::ConfirmHistory,
    prelude::*,
    scene,
    shared::{backend::channels::ClientChannel, entity_serde},
};
use bytes::Bytes;
use serde::{Deserialize, Serialize};
use std::panic::{AssertUnwindSafe, catch_unwind};

#[derive(Component, Serialize, Deserialize, Clone, Copy, PartialEq, Debug, Reflect, Default)]
#[reflect(Component)]
struct A(u32);
#[derive(Component, Serialize, Deserialize, Clone, Copy, PartialEq, Debug, Reflect, Default)]
#[reflect(Component)]
struct B(u32);

#[derive(Event, Serialize, Deserialize, Debug, Clone)]
struct Ev(u32);
#[derive(Event, Serialize, Deserialize, Debug, Clone)]
struct Trig(u32);

fn mk(auth: AuthMethod) -> App {
    let mut app = App::new();
    app.add_plugins((
        MinimalPlugins,
        RepliconPlugins
            .set(RepliconSharedPlugin { auth_method: auth })
            .set(ServerPlugin {
                tick_policy: TickPolicy::EveryFrame,
                ..Default::default()
            }),
    ))
    .replicate::<A>()
    .add_client_event::<Ev>(Channel::Ordered)
    .add_client_trigger::<Trig>(Channel::Ordered);
    app.finish();
    app
}

fn try_msg(name: &str, auth: AuthMethod, authorize: bool, channel: usize, bytes: &[u8]) {
    let mut server = mk(auth);
    server.world_mut().resource_mut::<RepliconServer>().set_running(true);
    let ce = server.world_mut().spawn(ConnectedClient { max_size: 1200 }).id();
    if authorize {
        server.world_mut().entity_mut(ce).insert(AuthorizedClient);
    }
    server.update();
    server
        .world_mut()
        .resource_mut::<RepliconServer>()
        .insert_received(ce, channel, Bytes::copy_from_slice(bytes));
    let r = catch_unwind(AssertUnwindSafe(|| server.update()));
    println!("{name}: channel {channel} bytes {bytes:?} authorized={authorize} -> {}", if r.is_ok() { "ok" } else { "PANIC" });
}

fn main() {
    let which = std::env::args().nth(1).unwrap_or_default();
    match which.as_str() {
        "f5" => {
            println!("client channels: {:?}", mk(AuthMethod::ProtocolCheck).world().resource::<RepliconChannels>().client_channels());
            try_msg("ack-unauth", AuthMethod::ProtocolCheck, false, ClientChannel::MutationAcks as usize, &[0, 0]);
            try_msg("ack-auth", AuthMethod::ProtocolCheck, true, ClientChannel::MutationAcks as usize, &[0, 0]);
            try_msg("ack-auth-junk", AuthMethod::ProtocolCheck, true, ClientChannel::MutationAcks as usize, &[7]);
        }
        "f10" => {
            // channel ids: 0 acks, 1 ProtocolHash trigger, 2 Ev, 3 Trig
            // trigger: len varint then entities then event
            try_msg("trig-len-max", AuthMethod::ProtocolCheck, false, 1, &[0xff, 0xff, 0xff, 0xff, 0xff, 0xff, 0xff, 0xff, 0xff, 0x01]);
            try_msg("trig-entity-gen-overflow", AuthMethod::ProtocolCheck, false, 1, &[1, 1, 0xff, 0xff, 0xff, 0xff, 0x0f]);
            try_msg("trig-entity-gen-overflow2", AuthMethod::ProtocolCheck, false, 3, &[1, 1, 0xff, 0xff, 0xff, 0xff, 0x0f, 0]);
            // direct codec
            for bytes in [&[1u8, 0xff, 0xff, 0xff, 0xff, 0x0f][..], &[0xff, 0xff, 0xff, 0xff, 0xff, 0xff, 0xff, 0xff, 0xff, 0x01][..], &[0xfe, 0xff, 0xff, 0xff, 0xff, 0xff, 0xff, 0xff, 0xff, 0x01][..]] {
                let mut b = Bytes::copy_from_slice(bytes);
                let r = catch_unwind(AssertUnwindSafe(|| entity_serde::deserialize_entity(&mut b)));
                println!("deserialize_entity {bytes:?} -> {:?}", r.map(|r| r.map_err(|e| e.to_string())).map_err(|_| "PANIC"));
            }
        }
        "f10b" => {
            // big but not overflowing capacity: 2^36 entities * 8 bytes = 512 GiB
            try_msg("trig-len-2^36", AuthMethod::ProtocolCheck, false, 1, &[0x80, 0x80, 0x80, 0x80, 0x80, 0x01]);
        }
        "f6" => {
            let t = RepliconTick::new;
            let mut h = ConfirmHistory::new(t(1));
            h.confirm(t(2));
            println!("after 1,2: {h:?}");
            h.confirm(t(66));
            println!("after 66 (gap 64): {h:?}; contains(65)={} (expected false) contains(2)={} ", h.contains(t(65)), h.contains(t(2)));
            let mut h = ConfirmHistory::new(t(1));
            h.confirm(t(2));
            h.confirm(t(67));
            println!("after gap 65: {h:?}; contains(66)={} contains(65)={} (expected false,false)", h.contains(t(66)), h.contains(t(65)));
            let h = ConfirmHistory::new(t(100));
            let r = catch_unwind(AssertUnwindSafe(|| h.contains_any(t(37), t(100))));
            println!("contains_any(37..=100) with last 100 -> {r:?} (expected Ok(true))");
        }
        "f12" => {
            let mut app = App::new();
            app.add_plugins((MinimalPlugins, RepliconPlugins))
                .register_type::<A>()
                .register_type::<B>()
                .replicate::<A>()
                .replicate_bundle::<(A, B)>();
            app.finish();
            let e = app.world_mut().spawn((Replicated, A(1), B(2))).id();
            let mut sc = DynamicScene::default();
            scene::replicate_into(&mut sc, app.world());
            for de in &sc.entities {
                println!("scene entity {} (world {e}) components: {:?}", de.entity, de.components.iter().map(|c| c.reflect_type_path().to_string()).collect::<Vec<_>>());
            }
            let registry = app.world().resource::<AppTypeRegistry>().read();
            let ser = sc.serialize(&registry);
            println!("serialize: {}", ser.as_ref().map(|s| s.len().to_string()).unwrap_or_else(|e| format!("ERR {e}")));
            if let Ok(s) = ser {
                use bevy::scene::serde::SceneDeserializer;
                use serde::de::DeserializeSeed;
                let mut de = bevy::asset::ron::Deserializer::from_str(&s).unwrap();
                let r = SceneDeserializer { type_registry: &registry }.deserialize(&mut de);
                println!("deserialize: {}", r.map(|_| "ok".to_string()).unwrap_or_else(|e| format!("ERR {e}")));
            }
        }
        _ => {}
    }
}
