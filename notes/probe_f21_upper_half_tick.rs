//! Witness for known finding F21 (build phase, not part of the machinery). The server's tick is in the
//! upper half of `u32` when the client connects. The client's "nothing received yet" state is the tick
//! value 0, which the wrapping comparison orders *after* every tick >= 2^31:
//!  (a) a mutate message that overtakes the first update message is not buffered: it is processed against
//!      an empty entity map, acknowledged, and the server never sends the value again;
//!  (b) `ServerMutateTicks` ignores every confirmation (no `MutateTickReceived`, `last_tick()` stays 0).
//! Run as an integration test of the repository (copy to tests/zz_probe.rs): FAILS on the repaired tree,
//! passes when `START` is below 2^31.
use bevy::prelude::*;
use bevy_replicon::{
    client::server_mutate_ticks::{MutateTickReceived, ServerMutateTicks},
    prelude::*,
    server::server_tick::ServerTick,
    shared::replication::track_mutate_messages::TrackAppExt,
    shared::server_entity_map::ServerEntityMap,
    test_app::ServerTestAppExt,
};
use serde::{Deserialize, Serialize};

const START: u32 = (1 << 31) + 1000;

#[derive(Component, Serialize, Deserialize, Clone, PartialEq, Debug)]
struct Hp(u32);
#[derive(Resource, Default)]
struct Fired(u32);

fn mk() -> App {
    let mut app = App::new();
    app.add_plugins((MinimalPlugins, RepliconPlugins.set(ServerPlugin { tick_policy: TickPolicy::Manual, ..Default::default() })))
        .track_mutate_messages()
        .init_resource::<Fired>()
    .replicate::<Hp>()
    .add_systems(Update, |mut r: EventReader<MutateTickReceived>, mut f: ResMut<Fired>| f.0 += r.read().count() as u32);
    app.finish();
    app
}

#[test]
fn session_that_begins_in_the_upper_half_of_the_tick_range() {
    let mut server = mk();
    let mut client = mk();
    server.world_mut().resource_mut::<ServerTick>().increment_by(START);
    server.connect_client(&mut client);
    let e = server.world_mut().spawn((Replicated, Hp(1))).id();
    server.world_mut().resource_mut::<ServerTick>().increment();
    server.update();
    // the update message with the spawn is held back ...
    let held: Vec<_> = server.world_mut().resource_mut::<RepliconServer>().drain_sent().collect();
    // ... and the next tick's mutate message overtakes it
    server.world_mut().get_mut::<Hp>(e).unwrap().0 = 2;
    server.world_mut().resource_mut::<ServerTick>().increment();
    server.update();
    server.exchange_with_client(&mut client);
    client.update();
    server.exchange_with_client(&mut client); // acknowledgements
    server.update();
    for (_, ch, m) in held {
        client.world_mut().resource_mut::<RepliconClient>().insert_received(ch, m);
    }
    for _ in 0..6 {
        client.update();
        server.exchange_with_client(&mut client);
        server.world_mut().resource_mut::<ServerTick>().increment();
        server.update();
        server.exchange_with_client(&mut client);
    }
    client.update();
    let map = client.world().resource::<ServerEntityMap>();
    let hp = map.to_client().get(&e).and_then(|c| client.world().get::<Hp>(*c)).map(|h| h.0);
    let mut problems = vec![];
    if hp != Some(2) {
        problems.push(format!("client has Hp {hp:?}, the server has 2 and considers it acknowledged"));
    }
    if client.world().resource::<Fired>().0 == 0 {
        problems.push(format!("no mutate tick was ever reported (ServerMutateTicks::last_tick {:?})", client.world().resource::<ServerMutateTicks>().last_tick()));
    }
    assert!(problems.is_empty(), "{problems:?}");
}
