//! Scratch prototype 2: per-frame C02/C03 oracles, tick policies, join/leave, tracking.
use bevy::{ecs::entity::MapEntities, prelude::*, time::TimeUpdateStrategy};
use bevy_replicon::{
    client::{
        ServerUpdateTick,
        confirm_history::ConfirmHistory,
        server_mutate_ticks::{MutateTickReceived, ServerMutateTicks},
    },
    prelude::*,
    server::server_tick::ServerTick,
    shared::{replication::track_mutate_messages::TrackAppExt, server_entity_map::ServerEntityMap},
};
use bytes::Bytes;
use serde::{Deserialize, Serialize};
use std::{
    collections::{BTreeMap, BTreeSet, VecDeque},
    panic::{AssertUnwindSafe, catch_unwind},
    time::Duration,
};

#[derive(Component, Serialize, Deserialize, Clone, PartialEq, Debug)]
struct A(u32);
#[derive(Component, Serialize, Deserialize, Clone, PartialEq, Debug)]
struct B(u32);
#[derive(Component, Serialize, Deserialize, Clone, PartialEq, Debug)]
struct Big(Vec<u8>);
#[derive(Component, Serialize, Deserialize, Clone, PartialEq, Debug, MapEntities)]
struct Link(#[entities] Entity);
#[derive(Component, Serialize, Deserialize, Clone, PartialEq, Debug)]
#[component(immutable)]
struct Imm(u32);

#[derive(Clone, PartialEq, Debug, Default)]
struct Snap {
    a: Option<A>,
    b: Option<B>,
    big: Option<Big>,
    imm: Option<Imm>,
    link: Option<Entity>,
}
impl Snap {
    fn kinds(&self) -> [bool; 5] {
        [
            self.a.is_some(),
            self.b.is_some(),
            self.big.is_some(),
            self.imm.is_some(),
            self.link.is_some(),
        ]
    }
}
type WorldSnap = BTreeMap<Entity, Snap>;

#[derive(Resource, Default)]
struct TickEvents(Vec<u32>);

struct Rng(u64);
impl Rng {
    fn next(&mut self) -> u64 {
        let mut x = self.0;
        x ^= x << 13;
        x ^= x >> 7;
        x ^= x << 17;
        self.0 = x;
        x
    }
    fn below(&mut self, n: usize) -> usize {
        (self.next() % n as u64) as usize
    }
}

#[derive(Clone, Copy, Debug, PartialEq)]
enum Pol {
    Manual,
    EveryFrame,
    MaxRate,
}

fn mk(vis: VisibilityPolicy, pol: Pol, track: bool, rel: bool, custom_auth: bool) -> App {
    let mut app = App::new();
    app.add_plugins((
        MinimalPlugins,
        RepliconPlugins
            .set(RepliconSharedPlugin {
                auth_method: if custom_auth { AuthMethod::Custom } else if std::env::var("FZ_PROTO").is_ok() { AuthMethod::ProtocolCheck } else { AuthMethod::None },
            })
            .set(ServerPlugin {
                tick_policy: match pol {
                    Pol::Manual => TickPolicy::Manual,
                    Pol::EveryFrame => TickPolicy::EveryFrame,
                    Pol::MaxRate => TickPolicy::MaxTickRate(40), // 25ms, frames are 10ms
                },
                visibility_policy: vis,
                mutations_timeout: Duration::from_millis(200),
            }),
    ))
    .insert_resource(TimeUpdateStrategy::ManualDuration(Duration::from_millis(10)))
    .init_resource::<TickEvents>()
    .replicate::<A>()
    .replicate::<B>()
    .replicate::<Big>()
    .replicate::<Link>()
    .replicate::<Imm>()
    .add_systems(
        Update,
        |mut r: EventReader<MutateTickReceived>, mut t: ResMut<TickEvents>| {
            for e in r.read() {
                t.0.push(e.tick.get());
            }
        },
    );
    if track {
        app.track_mutate_messages();
    }
    if rel {
        app.sync_related_entities::<ChildOf>();
    }
    if std::env::var("FZ_TRACE").is_ok() {
        app.add_plugins(bevy::log::LogPlugin { filter: "bevy_replicon=trace".into(), ..Default::default() });
    }
    app.finish();
    app
}

struct Cl {
    app: App,
    ent: Option<Entity>,
    authorized: bool,
    pre: Vec<(Entity, Entity, bool)>,
    inflight: BTreeMap<u16, (u32, usize, Vec<Entity>)>,
    acked_frame: BTreeMap<Entity, usize>,
    maybe_acked: BTreeMap<Entity, usize>,
    max_size: usize,
    s2c_upd: VecDeque<Bytes>,
    s2c_mut: Vec<Bytes>,
    c2s: VecDeque<(usize, Bytes)>,
    /// visible structure per tick at which something was sent on the updates channel
    x: BTreeMap<u32, WorldSnap>,
    last_hist: BTreeMap<Entity, u32>,
    last_update_tick: u32,
    /// mutate messages sent per tick (from wire) and delivered per tick
    sent_per_tick: BTreeMap<u32, usize>,
    delivered_per_tick: BTreeMap<u32, usize>,
    fired: BTreeSet<u32>,
}

struct H {
    rng: Rng,
    server: App,
    clients: Vec<Cl>,
    vis: VisibilityPolicy,
    pol: Pol,
    track: bool,
    rel: bool,
    custom_auth: bool,
    unmarked_once: BTreeSet<Entity>,
    frame_no: usize,
    tick_frame: BTreeMap<u32, usize>,
    ticked_this_frame: bool,
    last_mut_frame: BTreeMap<Entity, usize>,
    last_struct_frame: BTreeMap<Entity, usize>,
    n1_checks: usize,
    n2_checks: usize,
    server_frames_since_start: usize,
    wire_checks: usize,
    ents: Vec<Entity>,
    vis_rec: BTreeMap<(usize, Entity), bool>,
    snaps: BTreeMap<u32, WorldSnap>,
    last_tick_seen: u32,
    log: Vec<String>,
    errs: Vec<String>,
    checks: usize,
}

fn vis_default(p: VisibilityPolicy) -> bool {
    !matches!(p, VisibilityPolicy::Whitelist)
}

fn read_varint(b: &[u8]) -> (u64, usize) {
    let mut v = 0u64;
    let mut i = 0;
    loop {
        let x = b[i];
        v |= ((x & 0x7f) as u64) << (7 * i);
        i += 1;
        if x & 0x80 == 0 {
            break;
        }
    }
    (v, i)
}

impl H {
    fn new(seed: u64, vis: VisibilityPolicy, pol: Pol, track: bool, rel: bool, custom_auth: bool, nclients: usize) -> Self {
        let mut server = mk(vis, pol, track, rel, custom_auth);
        server
            .world_mut()
            .resource_mut::<RepliconServer>()
            .set_running(true);
        let rng = Rng(seed | 1);
        let mut clients = vec![];
        for _ in 0..nclients {
            clients.push(Cl {
                app: mk(vis, pol, track, rel, custom_auth),
                ent: None,
                authorized: false,
                pre: vec![],
                inflight: default(),
                acked_frame: default(),
                maybe_acked: default(),
                max_size: 0,
                s2c_upd: default(),
                s2c_mut: default(),
                c2s: default(),
                x: default(),
                last_hist: default(),
                last_update_tick: 0,
                sent_per_tick: default(),
                delivered_per_tick: default(),
                fired: default(),
            });
        }
        let mut h = Self {
            rng,
            server,
            clients,
            vis,
            pol,
            track,
            rel,
            custom_auth,
            unmarked_once: default(),
            frame_no: 0,
            tick_frame: default(),
            ticked_this_frame: false,
            last_mut_frame: default(),
            last_struct_frame: default(),
            n1_checks: 0,
            n2_checks: 0,
            server_frames_since_start: 0,
            wire_checks: 0,
            ents: vec![],
            vis_rec: default(),
            snaps: default(),
            last_tick_seen: 0,
            log: vec![],
            errs: vec![],
            checks: 0,
        };
        for i in 0..nclients {
            h.connect(i);
        }
        h
    }

    fn connect(&mut self, i: usize) {
        let max_size = [60, 200, 1200][self.rng.below(3)];
        let ent = self.server.world_mut().spawn(ConnectedClient { max_size }).id();
        let c = &mut self.clients[i];
        c.ent = Some(ent);
        c.authorized = !self.custom_auth && std::env::var("FZ_PROTO").is_err();
        c.max_size = max_size;
        c.app
            .world_mut()
            .resource_mut::<RepliconClient>()
            .set_status(RepliconClientStatus::Connected);
        self.log.push(format!("connect client{i} as {ent} max={max_size}"));
    }

    fn disconnect(&mut self, i: usize) {
        let c = &mut self.clients[i];
        let Some(ent) = c.ent.take() else { return };
        self.server.world_mut().entity_mut(ent).despawn();
        c.app
            .world_mut()
            .resource_mut::<RepliconClient>()
            .set_status(RepliconClientStatus::Disconnected);
        c.s2c_upd.clear();
        c.s2c_mut.clear();
        c.c2s.clear();
        c.x.clear();
        c.pre.clear();
        c.inflight.clear();
        c.acked_frame.clear(); c.maybe_acked.clear();
        c.authorized = false;
        c.last_hist.clear();
        c.last_update_tick = 0;
        c.sent_per_tick.clear();
        c.delivered_per_tick.clear();
        c.fired.clear();
        self.vis_rec.retain(|(ci, _), _| *ci != i);
        // game-side cleanup of replicated entities
        let mut q = c.app.world_mut().query_filtered::<Entity, With<Replicated>>();
        let es: Vec<_> = q.iter(c.app.world()).collect();
        for e in es {
            if let Ok(em) = c.app.world_mut().get_entity_mut(e) {
                em.despawn();
            }
        }
        self.log.push(format!("disconnect client{i}"));
        // one frame for both so that resets run
        self.server_frame(false);
        self.clients[i].app.update();
        self.clients[i].app.world_mut().resource_mut::<TickEvents>().0.clear();
    }

    fn collect(&mut self) {
        let msgs: Vec<_> = self
            .server
            .world_mut()
            .resource_mut::<RepliconServer>()
            .drain_sent()
            .collect();
        let track = self.track;
        for c in &mut self.clients {
            if let Some(e) = c.ent {
                c.authorized = self.server.world().get_entity(e).is_ok_and(|w| w.contains::<AuthorizedClient>());
            }
        }
        self.wire_check(&msgs);
        self.ticked_this_frame = false;
        for (e, ch, m) in msgs {
            let Some(c) = self.clients.iter_mut().find(|c| c.ent == Some(e)) else {
                self.errs.push(format!("message for unknown client {e}"));
                continue;
            };
            if !c.authorized && ch < 2 {
                self.errs.push(format!("C07: message on channel {ch} for unauthorized client {e}"));
            }
            match ch {
                0 => c.s2c_upd.push_back(m),
                1 => {
                    // decode header: update_tick, tick, [count], index
                    let (_, n1) = read_varint(&m);
                    let (t, _n2) = read_varint(&m[n1..]);
                    *c.sent_per_tick.entry(t as u32).or_default() += 1;
                    let _ = track;
                    c.s2c_mut.push(m)
                }
                _ => {}
            }
        }
        for c in &mut self.clients {
            let msgs: Vec<_> = c
                .app
                .world_mut()
                .resource_mut::<RepliconClient>()
                .drain_sent()
                .collect();
            c.c2s.extend(msgs);
        }
    }

    fn wire_check(&mut self, msgs: &[(Entity, usize, Bytes)]) {
        // union-find over harness relation model
        let mut parent_of: BTreeMap<Entity, Entity> = BTreeMap::new();
        fn find(p: &mut BTreeMap<Entity, Entity>, x: Entity) -> Entity {
            let mut r = x;
            while let Some(&n) = p.get(&r) { if n == r { break; } r = n; }
            r
        }
        if self.rel {
            for &e in &self.ents {
                if let Ok(w) = self.server.world().get_entity(e) {
                    if w.contains::<Replicated>() {
                        if let Some(c) = w.get::<ChildOf>() {
                            let a = find(&mut parent_of, e);
                            let b = find(&mut parent_of, c.parent());
                            if a != b { parent_of.insert(a, b); }
                        }
                    }
                }
            }
        }
        for ci in 0..self.clients.len() {
            let Some(ce) = self.clients[ci].ent else { continue };
            let mine: Vec<&Bytes> = msgs.iter().filter(|(e, ch, _)| *e == ce && *ch == 1).map(|(_, _, m)| m).collect();
            // N1: unacknowledged mutations must be present in every tick's traffic
            let tick_happened = msgs.iter().any(|(_, _, _)| true) || true;
            let _ = tick_happened;
            if self.clients[ci].authorized && self.ticked_this_frame {
                let upd_sent = msgs.iter().any(|(e, ch, _)| *e == ce && *ch == 0);
                let mut present: BTreeSet<Entity> = BTreeSet::new();
                for m in &mine {
                    let b: &[u8] = m;
                    let (_, n1) = read_varint(b);
                    let (_, n2) = read_varint(&b[n1..]);
                    let mut off = n1 + n2;
                    if self.track { let (_, n3) = read_varint(&b[off..]); off += n3; }
                    off += 2;
                    while off < b.len() {
                        let (fi, n) = read_varint(&b[off..]);
                        off += n;
                        let generation = if fi & 1 == 1 { let (g, n) = read_varint(&b[off..]); off += n; g as u32 + 1 } else { 1 };
                        present.insert(Entity::from_bits(((generation as u64) << 32) | (fi >> 1)));
                        let (sz, n) = read_varint(&b[off..]);
                        off += n + sz as usize;
                    }
                }
                let lm: Vec<(Entity, usize)> = self.last_mut_frame.iter().map(|(e, f)| (*e, *f)).collect();
                for (e, lmf) in lm {
                    let alive = self.server.world().get_entity(e).is_ok_and(|w| w.contains::<Replicated>() && (w.contains::<A>() || w.contains::<B>() || w.contains::<Big>()));
                    if !alive || !self.expected_visible(ci, e) { continue; }
                    let ls = self.last_struct_frame.get(&e).copied().unwrap_or(0);
                    // structural change in the same tick window or later: delivered reliably in an update message
                    let window_start = self.tick_frame.values().copied().filter(|f| *f <= lmf).max().unwrap_or(0);
                    if ls >= window_start { continue; }
                    // the client must already know the entity from an earlier tick
                    let known_before = self.clients[ci].x.iter().any(|(t, snap)| {
                        self.tick_frame.get(t).is_some_and(|f| *f <= lmf) && snap.contains_key(&e)
                    });
                    if !known_before { continue; }
                    let acked_after = self.clients[ci].acked_frame.get(&e).is_some_and(|af| *af > lmf);
                    // any acknowledgement at all (even outside the timeout window) may have been processed
                    let maybe_acked = self.clients[ci].maybe_acked.get(&e).is_some_and(|af| *af > lmf);
                    if acked_after || maybe_acked { continue; }
                    self.n1_checks += 1;
                    if !present.contains(&e) && !upd_sent {
                        self.errs.push(format!("client{ci} C11/N1: {e} mutated in frame {lmf}, never acknowledged, but absent from tick traffic in frame {}", self.frame_no));
                    }
                }
            }
            if mine.is_empty() { continue; }
            self.wire_checks += 1;
            let max = self.clients[ci].max_size;
            let mut where_is: BTreeMap<Entity, usize> = BTreeMap::new();
            let mut rec_size: BTreeMap<Entity, usize> = BTreeMap::new();
            let mut header = 0;
            for (mi, m) in mine.iter().enumerate() {
                let b: &[u8] = m;
                let (_, n1) = read_varint(b);
                let (_, n2) = read_varint(&b[n1..]);
                let mut off = n1 + n2;
                let mut hdr = n1 + n2 + 2;
                if self.track {
                    let (cnt, n3) = read_varint(&b[off..]);
                    off += n3;
                    hdr += 10;
                    if cnt as usize != mine.len() {
                        self.errs.push(format!("client{ci} wire: message count field {cnt} but {} messages", mine.len()));
                    }
                }
                let idx = u16::from_le_bytes([b[off], b[off + 1]]);
                let (tick_v, _) = read_varint(&b[n1..]);
                off += 2;
                header = hdr;
                let mut ents_in_msg = vec![];
                let msg_start = off;
                let _ = msg_start;
                while off < b.len() {
                    let start = off;
                    let (fi, n) = read_varint(&b[off..]);
                    off += n;
                    let generation = if fi & 1 == 1 { let (g, n) = read_varint(&b[off..]); off += n; g as u32 + 1 } else { 1 };
                    let ent = Entity::from_bits(((generation as u64) << 32) | (fi >> 1));
                    let (sz, n) = read_varint(&b[off..]);
                    off += n + sz as usize;
                    if where_is.insert(ent, mi).is_some() {
                        self.errs.push(format!("client{ci} wire: {ent} in two mutate messages of one tick"));
                    }
                    rec_size.insert(ent, off - start);
                    ents_in_msg.push(ent);
                }
                // N2: acknowledged and unchanged entities must not be resent
                for e in &ents_in_msg {
                    if let Some(&af) = self.clients[ci].acked_frame.get(e) {
                        let lm = self.last_mut_frame.get(e).copied().unwrap_or(0);
                        let ls = self.last_struct_frame.get(e).copied().unwrap_or(0);
                        self.n2_checks += 1;
                        // message built in frame `af` already contains everything changed before that frame
                        if lm < af && ls < af {
                            self.errs.push(format!(
                                "client{ci} C11/N2: {e} resent at tick {tick_v} although message of frame {af} was acknowledged and nothing changed since (last mut {lm}, struct {ls})"
                            ));
                        }
                    }
                }
                self.clients[ci].inflight.insert(idx, (tick_v as u32, self.frame_no, ents_in_msg));
                if off != b.len() {
                    self.errs.push(format!("client{ci} wire: trailing bytes"));
                }
            }
            // groups
            let mut groups: BTreeMap<Entity, Vec<Entity>> = BTreeMap::new();
            for &e in where_is.keys() {
                let root = find(&mut parent_of, e);
                groups.entry(root).or_default().push(e);
            }
            let mut all_fit = true;
            let mut total = 0;
            for (_, g) in &groups {
                let first = where_is[&g[0]];
                if g.iter().any(|e| where_is[e] != first) {
                    self.errs.push(format!("client{ci} wire: related group {g:?} split across messages"));
                }
                let sz: usize = g.iter().map(|e| rec_size[e]).sum();
                total += sz;
                if header + sz > max { all_fit = false; }
            }
            if all_fit {
                for m in &mine {
                    if m.len() > max {
                        self.errs.push(format!("client{ci} wire: message {} > max {max} although every group fits", m.len()));
                    }
                }
            }
            if header + total <= max && mine.len() != 1 {
                self.errs.push(format!("client{ci} wire: {} messages although everything fits in one ({} <= {max})", mine.len(), header + total));
            }
        }
    }

    fn snapshot(&self) -> WorldSnap {
        let mut out = WorldSnap::new();
        for &e in &self.ents {
            if let Ok(w) = self.server.world().get_entity(e) {
                if w.contains::<Replicated>() {
                    out.insert(
                        e,
                        Snap {
                            a: w.get::<A>().cloned(),
                            b: w.get::<B>().cloned(),
                            big: w.get::<Big>().cloned(),
                            imm: w.get::<Imm>().cloned(),
                            link: w.get::<Link>().map(|l| l.0),
                        },
                    );
                }
            }
        }
        out
    }

    fn server_frame(&mut self, tick: bool) {
        if tick && self.pol == Pol::Manual {
            let by = 1 + self.rng.below(2) as u32;
            self.server
                .world_mut()
                .resource_mut::<ServerTick>()
                .increment_by(by);
        }
        self.frame_no += 1;
        self.server.update();
        for c in &mut self.clients {
            if let Some(e) = c.ent {
                c.authorized = self.server.world().get_entity(e).is_ok_and(|w| w.contains::<AuthorizedClient>());
            }
        }
        self.server_frames_since_start += 1;
        let t = self.server.world().resource::<ServerTick>().get();
        self.log.push(format!("server_frame tick_req={tick} now={t}"));
        self.ticked_this_frame = t != self.last_tick_seen;
        if t != self.last_tick_seen {
            self.tick_frame.insert(t, self.frame_no);
            self.last_tick_seen = t;
            let snap = self.snapshot();
            for ci in 0..self.clients.len() {
                if self.clients[ci].ent.is_some() && self.clients[ci].authorized {
                    let x: WorldSnap = snap
                        .iter()
                        .filter(|(e, _)| self.expected_visible(ci, **e))
                        .map(|(e, s)| (*e, s.clone()))
                        .collect();
                    self.clients[ci].x.insert(t, x);
                }
            }
            self.snaps.insert(t, snap);
        }
        self.collect();
    }

    fn client_frame(&mut self, i: usize) {
        self.log.push(format!("client_frame {i}"));
        self.clients[i].app.update();
        self.collect();
        self.check_client(i);
    }

    fn check_client(&mut self, ci: usize) {
        self.checks += 1;
        let c = &mut self.clients[ci];
        if c.ent.is_none() {
            return;
        }
        let mut errs = vec![];
        let u = c.app.world().resource::<ServerUpdateTick>().get();
        if u < c.last_update_tick {
            errs.push(format!("client{ci}: update tick went back {} -> {u}", c.last_update_tick));
        }
        c.last_update_tick = u;
        let map = c.app.world().resource::<ServerEntityMap>();
        let to_client: BTreeMap<Entity, Entity> =
            map.to_client().iter().map(|(a, b)| (*a, *b)).collect();
        let to_server: BTreeMap<Entity, Entity> =
            map.to_server().iter().map(|(a, b)| (*a, *b)).collect();
        // C16
        c.pre.retain(|(se, _, _)| {
            self.server
                .world()
                .get_entity(*se)
                .is_ok_and(|w| w.contains::<Replicated>())
                && !self.unmarked_once.contains(se)
        });
        for (se, pre, killed) in &c.pre {
            if let Some(got) = to_client.get(se) {
                if !*killed && got != pre {
                    errs.push(format!("client{ci} C16: {se} mapped to {got} instead of pre-spawned {pre}"));
                }
                if *killed && got == pre {
                    errs.push(format!("client{ci} C16: {se} mapped to despawned {pre}"));
                }
            }
        }
        // C03
        let empty = WorldSnap::new();
        let expected = if u == 0 { Some(&empty) } else { c.x.get(&u) };
        match expected {
            None => errs.push(format!("client{ci}: update tick {u} has no server snapshot")),
            Some(x) => {
                let have: BTreeSet<Entity> = to_client
                    .iter()
                    .filter(|(_, ce)| {
                        c.app.world().get_entity(**ce).map_or(true, |w| {
                            w.contains::<Replicated>()
                                || w.contains::<ConfirmHistory>()
                                || w.contains::<A>()
                                || w.contains::<B>()
                                || w.contains::<Big>()
                                || w.contains::<Imm>()
                                || w.contains::<Link>()
                        })
                    })
                    .map(|(s, _)| *s)
                    .collect();
                let want: BTreeSet<Entity> = x.keys().copied().collect();
                if have != want {
                    errs.push(format!(
                        "client{ci} C03@{u}: missing {:?} extra {:?}",
                        want.difference(&have).collect::<Vec<_>>(),
                        have.difference(&want).collect::<Vec<_>>()
                    ));
                }
                for (s, snap) in x {
                    let Some(&ce) = to_client.get(s) else { continue };
                    let Ok(cw) = c.app.world().get_entity(ce) else {
                        errs.push(format!("client{ci} C03@{u}: {s}->{ce} dead"));
                        continue;
                    };
                    let kinds = [
                        cw.contains::<A>(),
                        cw.contains::<B>(),
                        cw.contains::<Big>(),
                        cw.contains::<Imm>(),
                        cw.contains::<Link>(),
                    ];
                    if kinds != snap.kinds() {
                        errs.push(format!(
                            "client{ci} C03@{u}: {s} kinds {:?} expected {:?}",
                            kinds,
                            snap.kinds()
                        ));
                    }
                    if !cw.contains::<Replicated>() {
                        errs.push(format!("client{ci} C03@{u}: {s} unmarked"));
                    }
                }
            }
        }
        for (s, ce) in &to_client {
            if to_server.get(ce) != Some(s) {
                errs.push(format!("client{ci}: map not bijective {s}->{ce}"));
            }
        }
        if to_client.len() != to_server.len() {
            errs.push(format!("client{ci}: map sizes differ"));
        }
        // C02
        let mut new_hist = BTreeMap::new();
        for (s, ce) in &to_client {
            let Ok(cw) = c.app.world().get_entity(*ce) else { continue };
            let Some(h) = cw.get::<ConfirmHistory>() else {
                continue;
            };
            let ht = h.last_tick().get();
            new_hist.insert(*s, ht);
            if let Some(&prev) = c.last_hist.get(s) {
                if ht < prev {
                    errs.push(format!("client{ci} C02: {s} confirmed tick went back {prev}->{ht}"));
                }
            }
            let Some(ws) = self.snaps.get(&ht) else {
                errs.push(format!("client{ci} C02: {s} confirmed tick {ht} unknown"));
                continue;
            };
            let Some(snap) = ws.get(s) else {
                errs.push(format!("client{ci} C02: {s} absent from snapshot {ht}"));
                continue;
            };
            if let (Some(x), Some(y)) = (cw.get::<A>(), &snap.a) {
                if x != y {
                    errs.push(format!("client{ci} C02: {s}@{ht} A {x:?} vs {y:?}"));
                }
            }
            if let (Some(x), Some(y)) = (cw.get::<B>(), &snap.b) {
                if x != y {
                    errs.push(format!("client{ci} C02: {s}@{ht} B {x:?} vs {y:?}"));
                }
            }
            if let (Some(x), Some(y)) = (cw.get::<Big>(), &snap.big) {
                if x != y {
                    errs.push(format!("client{ci} C02: {s}@{ht} Big differs"));
                }
            }
            if let (Some(x), Some(y)) = (cw.get::<Imm>(), &snap.imm) {
                if x != y {
                    errs.push(format!("client{ci} C02: {s}@{ht} Imm {x:?} vs {y:?}"));
                }
            }

        }
        c.last_hist = new_hist;
        // C12 e2e
        if self.track {
            let fired: Vec<u32> = std::mem::take(&mut c.app.world_mut().resource_mut::<TickEvents>().0);
            for t in fired {
                if !c.fired.insert(t) {
                    errs.push(format!("client{ci} C12: tick {t} fired twice"));
                }
                let sent = c.sent_per_tick.get(&t).copied().unwrap_or(0);
                let deliv = c.delivered_per_tick.get(&t).copied().unwrap_or(0);
                if sent == 0 || sent != deliv {
                    errs.push(format!("client{ci} C12: tick {t} fired with sent {sent} delivered {deliv}"));
                }
                if !c.app.world().resource::<ServerMutateTicks>().contains(RepliconTick::new(t)) {
                    errs.push(format!("client{ci} C12: tick {t} fired but not contained"));
                }
            }
        }
        if !errs.is_empty() {
            self.errs.extend(errs);
        }
    }

    fn authorize_one(&mut self) {
        let ci = self.rng.below(self.clients.len());
        let c = &mut self.clients[ci];
        if let Some(e) = c.ent {
            if !c.authorized {
                self.server.world_mut().entity_mut(e).insert(AuthorizedClient);
                c.authorized = true;
                self.log.push(format!("authorize client{ci}"));
            }
        }
    }

    fn prespawn(&mut self) {
        let ci = self.rng.below(self.clients.len());
        let Some(ce) = self.clients[ci].ent else { return };
        if !self.clients[ci].authorized { return; }
        let v = self.rng.next() as u32 % 1000;
        let pre = self.clients[ci].app.world_mut().spawn_empty().id();
        let se = self.server.world_mut().spawn((Replicated, A(v))).id();
        self.ents.push(se);
        self.server.world_mut().get_mut::<ClientEntityMap>(ce).unwrap().insert(se, pre);
        if matches!(self.vis, VisibilityPolicy::Whitelist) {
            self.server.world_mut().get_mut::<ClientVisibility>(ce).unwrap().set_visibility(se, true);
            self.vis_rec.insert((ci, se), true);
        }
        // sometimes the client despawns its entity before the mapping arrives
        let kill = self.rng.below(5) == 0;
        if kill {
            self.clients[ci].app.world_mut().entity_mut(pre).despawn();
        }
        self.clients[ci].pre.push((se, pre, kill));
        self.log.push(format!("prespawn client{ci} {se} -> {pre} killed={kill}"));
    }

    fn restart_server(&mut self) {
        if self.server_frames_since_start == 0 {
            return;
        }
        self.server_frames_since_start = 0;
        self.log.push("server stop".into());
        self.server.world_mut().resource_mut::<RepliconServer>().set_running(false);
        for i in 0..self.clients.len() {
            // backend would drop connections
            let c = &mut self.clients[i];
            if c.ent.take().is_some() {
                c.app.world_mut().resource_mut::<RepliconClient>().set_status(RepliconClientStatus::Disconnected);
                c.s2c_upd.clear(); c.s2c_mut.clear(); c.c2s.clear(); c.x.clear(); c.pre.clear(); c.inflight.clear(); c.acked_frame.clear(); c.maybe_acked.clear(); c.authorized = false;
                c.last_hist.clear(); c.last_update_tick = 0; c.sent_per_tick.clear(); c.delivered_per_tick.clear(); c.fired.clear();
                let mut q = c.app.world_mut().query_filtered::<Entity, With<Replicated>>();
                let es: Vec<_> = q.iter(c.app.world()).collect();
                for e in es { if let Ok(em) = c.app.world_mut().get_entity_mut(e) { em.despawn(); } }
                c.app.update();
                c.app.world_mut().resource_mut::<TickEvents>().0.clear();
            }
        }
        self.vis_rec.clear();
        self.server.update();
        self.server.update();
        let left: Vec<_> = self.server.world_mut().resource_mut::<RepliconServer>().drain_sent().collect();
        if !left.is_empty() { self.errs.push(format!("C09: {} messages sent while stopped", left.len())); }
        let mut q = self.server.world_mut().query_filtered::<Entity, With<ConnectedClient>>();
        if q.iter(self.server.world()).count() != 0 { self.errs.push("C09: connected clients survive server stop".into()); }
        self.server.world_mut().resource_mut::<RepliconServer>().set_running(true);
        self.snaps.clear();
        self.tick_frame.clear();
        self.last_tick_seen = 0;
        self.log.push("server start".into());
        for i in 0..self.clients.len() { self.connect(i); }
    }

    fn alive_repl(&self) -> Vec<Entity> {
        self.ents
            .iter()
            .copied()
            .filter(|&e| {
                self.server
                    .world()
                    .get_entity(e)
                    .is_ok_and(|e| e.contains::<Replicated>())
            })
            .collect()
    }

    fn unlink_targets(&mut self, target: Entity) {
        // despawn is recursive over children: unlink all descendants too
        let kids: Vec<Entity> = self
            .server
            .world()
            .get::<Children>(target)
            .map(|c| c.iter().collect())
            .unwrap_or_default();
        for k in kids {
            self.unlink_targets(k);
        }
        let ents = self.ents.clone();
        for e in ents {
            if let Ok(mut em) = self.server.world_mut().get_entity_mut(e) {
                if em.get::<Link>().is_some_and(|l| l.0 == target) {
                    em.remove::<Link>();
                    self.last_struct_frame.insert(e, self.frame_no);
                }
            }
        }
    }

    fn server_op(&mut self) {
        let alive: Vec<Entity> = self
            .ents
            .iter()
            .copied()
            .filter(|&e| self.server.world().get_entity(e).is_ok())
            .collect();
        let k = self.rng.below(15);
        let pick = if alive.is_empty() {
            None
        } else {
            Some(alive[self.rng.below(alive.len())])
        };
        let v = self.rng.next() as u32 % 1000;
        match (k, pick) {
            (0, _) | (1, _) | (_, None) => {
                let mut e = self.server.world_mut().spawn(Replicated);
                if v % 2 == 0 {
                    e.insert(A(v));
                }
                if v % 3 == 0 {
                    e.insert(B(v));
                }
                if v % 5 == 0 {
                    e.insert(Big(vec![v as u8; (v % 150) as usize]));
                }
                if v % 7 == 0 {
                    e.insert(Imm(v));
                }
                let id = e.id();
                self.ents.push(id);
                self.log.push(format!("spawn {id} v={v}"));
            }
            (2, Some(e)) => {
                self.unlink_targets(e);
                self.server.world_mut().entity_mut(e).despawn();
                self.vis_rec.retain(|(_, x), _| *x != e);
                self.log.push(format!("despawn {e}"));
            }
            (3, Some(e)) => {
                let mut em = self.server.world_mut().entity_mut(e);
                match v % 4 {
                    0 => {
                        em.insert(A(v));
                    }
                    1 => {
                        em.insert(B(v));
                    }
                    2 => {
                        em.insert(Imm(v));
                    }
                    _ => {
                        em.insert(Big(vec![v as u8; (v % 150) as usize]));
                    }
                }
                self.last_struct_frame.insert(e, self.frame_no);
                self.log.push(format!("insert {e} kind={} v={v}", v % 4));
            }
            (4, Some(e)) => {
                let mut em = self.server.world_mut().entity_mut(e);
                match v % 5 {
                    0 => {
                        em.remove::<A>();
                    }
                    1 => {
                        em.remove::<B>();
                    }
                    2 => {
                        em.remove::<Big>();
                    }
                    3 => {
                        em.remove::<Imm>();
                    }
                    _ => {
                        em.remove::<Link>();
                    }
                }
                self.last_struct_frame.insert(e, self.frame_no);
                self.log.push(format!("remove {e} kind={}", v % 5));
            }
            (5, Some(e)) | (6, Some(e)) | (7, Some(e)) | (12, Some(e)) => {
                let mut em = self.server.world_mut().entity_mut(e);
                if let Some(mut a) = em.get_mut::<A>() {
                    a.0 = v;
                }
                if v % 2 == 0 {
                    if let Some(mut b) = em.get_mut::<B>() {
                        b.0 = v;
                    }
                }
                if v % 3 == 0 {
                    if let Some(mut b) = em.get_mut::<Big>() {
                        b.0 = vec![v as u8; (v % 150) as usize];
                    }
                }
                let w = self.server.world().entity(e);
                if w.contains::<A>() || (v % 2 == 0 && w.contains::<B>()) || (v % 3 == 0 && w.contains::<Big>()) {
                    self.last_mut_frame.insert(e, self.frame_no);
                }
                self.log.push(format!("mutate {e} v={v}"));
            }
            (8, Some(e)) if matches!(self.vis, VisibilityPolicy::All) => {
                let has = self.server.world().entity(e).contains::<Replicated>();
                if has {
                    self.unlink_targets(e);
                    self.unmarked_once.insert(e);
                    self.server.world_mut().entity_mut(e).remove::<Replicated>();
                } else {
                    self.server.world_mut().entity_mut(e).insert(Replicated);
                }
                self.last_struct_frame.insert(e, self.frame_no);
                self.log.push(format!("toggle marker {e} now={}", !has));
            }
            (9, Some(e)) | (10, Some(e)) => {
                if !matches!(self.vis, VisibilityPolicy::All) {
                    let ci = self.rng.below(self.clients.len());
                    if let Some(ce) = self.clients[ci].ent.filter(|_| self.clients[ci].authorized && !self.clients[ci].pre.iter().any(|(se, _, _)| *se == e)) {
                        let val = v % 2 == 0;
                        self.server
                            .world_mut()
                            .get_mut::<ClientVisibility>(ce)
                            .unwrap()
                            .set_visibility(e, val);
                        self.vis_rec.insert((ci, e), val);
                        self.clients[ci].acked_frame.remove(&e);
                        self.last_struct_frame.insert(e, self.frame_no);
                        self.log.push(format!("set_vis client{ci} {e} {val}"));
                    }
                }
            }
            (13, Some(e)) if self.rel => {
                let alive: Vec<Entity> = self.ents.iter().copied().filter(|&x| x != e && self.server.world().get_entity(x).is_ok()).collect();
                if !alive.is_empty() {
                    let p = alive[self.rng.below(alive.len())];
                    // avoid cycles: only parent to an entity that is not a descendant
                    let mut cur = Some(p);
                    let mut cyc = false;
                    while let Some(c) = cur {
                        if c == e { cyc = true; break; }
                        cur = self.server.world().get::<ChildOf>(c).map(|c| c.parent());
                    }
                    if !cyc {
                        self.server.world_mut().entity_mut(e).insert(ChildOf(p));
                        self.log.push(format!("parent {e} -> {p}"));
                    }
                }
            }
            (14, Some(e)) if self.rel => {
                self.server.world_mut().entity_mut(e).remove::<ChildOf>();
                self.log.push(format!("unparent {e}"));
            }
            (11, Some(e)) => {
                if matches!(self.vis, VisibilityPolicy::All) {
                    let repl = self.alive_repl();
                    if !repl.is_empty() {
                        let t = repl[self.rng.below(repl.len())];
                        if t != e {
                            self.last_struct_frame.insert(e, self.frame_no);
                            self.server.world_mut().entity_mut(e).insert(Link(t));
                            self.log.push(format!("link {e} -> {t}"));
                        }
                    }
                }
            }
            _ => {}
        }
    }

    fn deliver_mut(&mut self, ci: usize, i: usize) {
        let c = &mut self.clients[ci];
        let m = c.s2c_mut.remove(i);
        let (_, n1) = read_varint(&m);
        let (t, _) = read_varint(&m[n1..]);
        *c.delivered_per_tick.entry(t as u32).or_default() += 1;
        c.app
            .world_mut()
            .resource_mut::<RepliconClient>()
            .insert_received(1usize, m);
    }

    fn net_op(&mut self) {
        let ci = self.rng.below(self.clients.len());
        if self.clients[ci].ent.is_none() {
            return;
        }
        let k = self.rng.below(6);
        let r = self.rng.next();
        match k {
            0 | 1 => {
                let n = 1 + (r % 3) as usize;
                let c = &mut self.clients[ci];
                for _ in 0..n {
                    if let Some(m) = c.s2c_upd.pop_front() {
                        c.app
                            .world_mut()
                            .resource_mut::<RepliconClient>()
                            .insert_received(0usize, m);
                        self.log.push(format!("deliver upd client{ci}"));
                    }
                }
            }
            2 | 3 => {
                if !self.clients[ci].s2c_mut.is_empty() {
                    let i = (r as usize) % self.clients[ci].s2c_mut.len();
                    self.deliver_mut(ci, i);
                    self.log.push(format!("deliver mut#{i} client{ci}"));
                }
            }
            4 => {
                let c = &mut self.clients[ci];
                if !c.s2c_mut.is_empty() {
                    let i = (r as usize) % c.s2c_mut.len();
                    c.s2c_mut.remove(i);
                    self.log.push(format!("drop mut#{i} client{ci}"));
                }
            }
            _ => {
                let n = 1 + (r % 3) as usize;
                let c = &mut self.clients[ci];
                for _ in 0..n {
                    if let Some((ch, m)) = c.c2s.pop_front() {
                        if ch == 0 {
                            for pair in m.chunks(2) {
                                let idx = u16::from_le_bytes([pair[0], pair[1]]);
                                if let Some((_, f, ents)) = c.inflight.remove(&idx) {
                                    for e in ents {
                                        if self.frame_no - f < 15 {
                                            let cur = c.acked_frame.entry(e).or_insert(0);
                                            if f > *cur { *cur = f; }
                                        }
                                        let cur = c.maybe_acked.entry(e).or_insert(0);
                                        if f > *cur { *cur = f; }
                                    }
                                }
                            }
                        }
                        self.server
                            .world_mut()
                            .resource_mut::<RepliconServer>()
                            .insert_received(c.ent.unwrap(), ch, m);
                        self.log.push(format!("deliver ack client{ci}"));
                    }
                }
            }
        }
    }

    fn quiesce(&mut self) {
        for i in 0..self.clients.len() {
            if self.clients[i].ent.is_none() {
                self.connect(i);
            }
            if !self.clients[i].authorized {
                let e = self.clients[i].ent.unwrap();
                self.server.world_mut().entity_mut(e).insert(AuthorizedClient);
                self.clients[i].authorized = true;
            }
        }
        for _ in 0..14 {
            self.server_frame(true);
            for ci in 0..self.clients.len() {
                {
                    let c = &mut self.clients[ci];
                    let mut rc = c.app.world_mut().resource_mut::<RepliconClient>();
                    while let Some(m) = c.s2c_upd.pop_front() {
                        rc.insert_received(0usize, m);
                    }
                }
                while !self.clients[ci].s2c_mut.is_empty() {
                    self.deliver_mut(ci, 0);
                }
                self.client_frame(ci);
                let c = &mut self.clients[ci];
                let mut rs = self.server.world_mut().resource_mut::<RepliconServer>();
                while let Some((ch, m)) = c.c2s.pop_front() {
                    if ch == 0 {
                        for pair in m.chunks(2) {
                            let idx = u16::from_le_bytes([pair[0], pair[1]]);
                            if let Some((_, f, ents)) = c.inflight.remove(&idx) {
                                for e in ents {
                                    if self.frame_no - f < 15 {
                                        let cur = c.acked_frame.entry(e).or_insert(0);
                                        if f > *cur { *cur = f; }
                                    }
                                    let cur = c.maybe_acked.entry(e).or_insert(0);
                                    if f > *cur { *cur = f; }
                                }
                            }
                        }
                    }
                    rs.insert_received(c.ent.unwrap(), ch, m);
                }
            }
        }
    }

    fn idle_check(&mut self) {
        for _ in 0..3 {
            self.server_frame(true);
            for ci in 0..self.clients.len() {
                let c = &mut self.clients[ci];
                let n = c.s2c_upd.len() + if self.track { 0 } else { c.s2c_mut.len() };
                if n != 0 {
                    self.errs.push(format!("client{ci} C11: {n} replication messages at rest"));
                }
                c.s2c_upd.clear();
                c.s2c_mut.clear();
            }
        }
    }

    fn expected_visible(&self, ci: usize, e: Entity) -> bool {
        self.vis_rec
            .get(&(ci, e))
            .copied()
            .unwrap_or(vis_default(self.vis))
    }

    fn compare_final(&mut self) {
        // C01: at quiescence the client's update tick snapshot must equal the current server state
        let now = self.snapshot();
        for ci in 0..self.clients.len() {
            let want: WorldSnap = now
                .iter()
                .filter(|(e, _)| self.expected_visible(ci, **e))
                .map(|(e, s)| (*e, s.clone()))
                .collect();
            let c = &mut self.clients[ci];
            let map = c.app.world().resource::<ServerEntityMap>();
            let to_client: BTreeMap<Entity, Entity> =
                map.to_client().iter().map(|(a, b)| (*a, *b)).collect();
            let have: BTreeSet<Entity> = to_client
                .iter()
                .filter(|(_, ce)| {
                    c.app.world().get_entity(**ce).map_or(true, |w| {
                        w.contains::<Replicated>() || w.contains::<ConfirmHistory>()
                    })
                })
                .map(|(s, _)| *s)
                .collect();
            let wantk: BTreeSet<Entity> = want.keys().copied().collect();
            if have != wantk {
                self.errs.push(format!(
                    "client{ci} C01: missing {:?} extra {:?}",
                    wantk.difference(&have).collect::<Vec<_>>(),
                    have.difference(&wantk).collect::<Vec<_>>()
                ));
            }
            for (s, snap) in &want {
                let Some(ce) = to_client.get(s) else { continue };
                let Ok(cw) = c.app.world().get_entity(*ce) else { continue };
                let got = Snap {
                    a: cw.get::<A>().cloned(),
                    b: cw.get::<B>().cloned(),
                    big: cw.get::<Big>().cloned(),
                    imm: cw.get::<Imm>().cloned(),
                    link: cw.get::<Link>().and_then(|l| {
                        map.to_server().get(&l.0).copied()
                    }),
                };
                if &got != snap {
                    self.errs.push(format!("client{ci} C01: {s} {got:?} vs {snap:?}"));
                }
            }
            let mut q = c.app.world_mut().query_filtered::<Entity, With<Replicated>>();
            let marked = q.iter(c.app.world()).count();
            if marked != want.len() {
                self.errs.push(format!("client{ci} C01: {marked} marked entities, expected {}", want.len()));
            }
        }
    }
}

fn run(seed: u64, steps: usize, verbose: bool) -> Result<usize, String> {
    let mut r = Rng(seed.wrapping_mul(0x9E3779B97F4A7C15) | 1);
    let vis = [
        VisibilityPolicy::All,
        VisibilityPolicy::Blacklist,
        VisibilityPolicy::Whitelist,
    ][r.below(3)];
    let pol = [Pol::Manual, Pol::Manual, Pol::EveryFrame, Pol::MaxRate][r.below(4)];
    let track = r.below(2) == 0;
    let rel = r.below(2) == 0;
    let custom_auth = r.below(3) == 0;
    let n = 1 + r.below(3);
    let mut h = H::new(seed, vis, pol, track, rel, custom_auth, n);
    let res = catch_unwind(AssertUnwindSafe(|| {
        h.server_frame(true);
        for _ in 0..steps {
            match h.rng.below(24) {
                0..=7 => h.server_op(),
                8 | 9 => h.server_frame(true),
                10 | 11 => h.server_frame(false),
                12..=15 => {
                    let ci = h.rng.below(h.clients.len());
                    h.client_frame(ci)
                }
                17 if h.custom_auth => h.authorize_one(),
                18 => h.prespawn(),
                19 if h.rng.below(25) == 0 => h.restart_server(),
                16 => {
                    let ci = h.rng.below(h.clients.len());
                    if h.rng.below(4) == 0 {
                        if h.clients[ci].ent.is_some() {
                            h.disconnect(ci);
                        } else {
                            h.connect(ci);
                        }
                    }
                }
                _ => h.net_op(),
            }
            if !h.errs.is_empty() {
                break;
            }
        }
        if h.errs.is_empty() {
            h.quiesce();
            h.compare_final();
            if h.errs.is_empty() {
                h.idle_check();
            }
        }
    }));
    let desc = format!("seed {seed} vis {vis:?} pol {pol:?} track {track} rel {rel} custom_auth {custom_auth} n {n}");
    match res {
        Ok(()) if h.errs.is_empty() => Ok(h.n1_checks + h.n2_checks * 1000000),
        Ok(()) => {
            if verbose {
                for l in &h.log {
                    println!("  {l}");
                }
            }
            Err(format!("{desc}: {:?}", &h.errs[..h.errs.len().min(4)]))
        }
        Err(_) => {
            if verbose {
                for l in &h.log {
                    println!("  {l}");
                }
            }
            Err(format!("{desc}: PANIC"))
        }
    }
}

fn main() {
    let args: Vec<String> = std::env::args().collect();
    let from: u64 = args[1].parse().unwrap();
    let to: u64 = args[2].parse().unwrap();
    let steps: usize = args[3].parse().unwrap();
    let verbose = args.get(4).is_some();
    let mut bad = 0;
    let mut checks = 0;
    for seed in from..to {
        match run(seed, steps, verbose) {
            Ok(c) => checks += c,
            Err(e) => {
                println!("FAIL {e}");
                bad += 1;
            }
        }
    }
    println!("done {} seeds, {bad} failures, {checks} per-frame checks", to - from);
}
