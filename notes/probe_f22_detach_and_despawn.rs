//! Witness for known finding F22 (build phase, not part of the machinery). Replicated `ChildOf` (the way
//! the crate documentation suggests to replicate hierarchies): a child is detached from its parent and
//! the parent is despawned in the same tick. The update message is applied in the order despawns,
//! removals, changes: the parent's despawn record runs first, the client's own linked despawn takes the
//! still attached child along, the removal record for the child then fails and the client rejects the
//! rest of the update message (the insertion on the bystander is lost as well).
//! Run as an integration test of the repository (copy to tests/zz_probe.rs): FAILS on the repaired tree.
use bevy::prelude::*;
use bevy_replicon::{prelude::*, server::server_tick::ServerTick, shared::server_entity_map::ServerEntityMap, test_app::ServerTestAppExt};
use serde::{Deserialize, Serialize};

#[derive(Component, Serialize, Deserialize, Clone, PartialEq, Debug)]
struct Hp(u32);
#[derive(Component, Serialize, Deserialize, Clone, PartialEq, Debug)]
struct Tag(u32);

fn mk() -> App {
    let mut app = App::new();
    app.add_plugins((MinimalPlugins, RepliconPlugins.set(ServerPlugin { tick_policy: TickPolicy::Manual, ..Default::default() })))
        .replicate::<ChildOf>()
        .replicate::<Hp>()
        .replicate::<Tag>();
    app.finish();
    app
}

fn tick(server: &mut App, client: &mut App) {
    server.world_mut().resource_mut::<ServerTick>().increment();
    server.update();
    server.exchange_with_client(client);
    client.update();
    server.exchange_with_client(client);
}

#[test]
fn detach_child_and_despawn_parent_in_one_tick() {
    let mut server = mk();
    let mut client = mk();
    server.connect_client(&mut client);
    let parent = server.world_mut().spawn((Replicated, Hp(1))).id();
    let child = server.world_mut().spawn((Replicated, Hp(2), ChildOf(parent))).id();
    let bystander = server.world_mut().spawn((Replicated, Hp(3))).id();
    tick(&mut server, &mut client);
    // one tick window: detach, despawn the former parent, and an unrelated insertion
    server.world_mut().entity_mut(child).remove::<ChildOf>();
    server.world_mut().entity_mut(parent).despawn();
    server.world_mut().entity_mut(bystander).insert(Tag(7));
    assert!(server.world().get_entity(child).is_ok(), "the child lives on on the server");
    for _ in 0..4 {
        tick(&mut server, &mut client);
    }
    let map = client.world().resource::<ServerEntityMap>();
    let on_client = |e: Entity| map.to_client().get(&e).copied().filter(|c| client.world().get_entity(*c).is_ok());
    let mut problems = vec![];
    if on_client(child).is_none() {
        problems.push("the client lost the child although it is alive and replicated on the server");
    }
    if on_client(bystander).and_then(|c| client.world().get::<Tag>(c)).is_none() {
        problems.push("the bystander's insertion of the same tick never reached the client");
    }
    assert!(problems.is_empty(), "{problems:?}");
}
