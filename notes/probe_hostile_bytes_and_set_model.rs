//! hostile bytes at the server (C06) and set-model for confirm structures (C12)
use bevy::{ecs::entity::MapEntities, prelude::*};
use bevy_replicon::{
    client::{confirm_history::ConfirmHistory, server_mutate_ticks::ServerMutateTicks},
    prelude::*,
};
use bytes::Bytes;
use serde::{Deserialize, Serialize};
use std::{collections::BTreeSet, panic::{AssertUnwindSafe, catch_unwind}};

#[derive(Event, Serialize, Deserialize, Debug, Clone)]
struct Ev { a: u32, s: String, v: Vec<u16> }
#[derive(Event, Serialize, Deserialize, Debug, Clone, MapEntities)]
struct MEv { #[entities] e: Entity, o: Option<u8> }
#[derive(Event, Serialize, Deserialize, Debug, Clone)]
struct Trig(u64);

fn mk() -> App {
    let mut app = App::new();
    app.add_plugins((MinimalPlugins, RepliconPlugins.set(ServerPlugin { tick_policy: TickPolicy::EveryFrame, ..Default::default() })))
        .add_client_event::<Ev>(Channel::Ordered)
        .add_mapped_client_event::<MEv>(Channel::Unordered)
        .add_client_trigger::<Trig>(Channel::Unreliable);
    app.finish();
    app
}

struct Rng(u64);
impl Rng { fn next(&mut self) -> u64 { let mut x = self.0; x ^= x << 13; x ^= x >> 7; x ^= x << 17; self.0 = x; x } }

fn main() {
    let which = std::env::args().nth(1).unwrap_or_default();
    if which == "c06" {
        let mut server = mk();
        server.world_mut().resource_mut::<RepliconServer>().set_running(true);
        let unauth = server.world_mut().spawn(ConnectedClient { max_size: 1200 }).id();
        let auth = server.world_mut().spawn((ConnectedClient { max_size: 1200 }, AuthorizedClient)).id();
        server.update();
        let nch = server.world().resource::<RepliconChannels>().client_channels().len();
        println!("client channels: {nch}");
        let mut n = 0u64;
        let mut panics = 0;
        let mut try_one = |server: &mut App, client: Entity, ch: usize, bytes: &[u8]| {
            server.world_mut().resource_mut::<RepliconServer>().insert_received(client, ch, Bytes::copy_from_slice(bytes));
            let r = catch_unwind(AssertUnwindSafe(|| server.update()));
            if r.is_err() { panics += 1; if panics < 10 { println!("PANIC ch {ch} bytes {bytes:?}"); } }
            // drop disconnect requests etc.
            server.world_mut().resource_mut::<RepliconServer>().drain_sent().count();
        };
        // exhaustive up to 2 bytes
        for ch in 0..nch {
            for client in [unauth, auth] {
                try_one(&mut server, client, ch, &[]); n += 1;
                for a in 0..=255u8 { try_one(&mut server, client, ch, &[a]); n += 1; }
                for a in 0..=255u8 { for b in 0..=255u8 { try_one(&mut server, client, ch, &[a, b]); n += 1; } }
            }
        }
        // random up to 24 bytes with varint-heavy bytes
        let mut rng = Rng(0x1234567);
        for _ in 0..300000 {
            let len = (rng.next() % 24) as usize;
            let bytes: Vec<u8> = (0..len).map(|_| { let r = rng.next(); match r % 4 { 0 => 0xff, 1 => (r >> 8) as u8 & 0x7f, 2 => 0x80 | ((r >> 8) as u8), _ => (r >> 8) as u8 } }).collect();
            let ch = (rng.next() % nch as u64) as usize;
            let client = if rng.next() % 2 == 0 { unauth } else { auth };
            try_one(&mut server, client, ch, &bytes); n += 1;
        }
        println!("{n} inputs, {panics} panics");
    } else if which == "c12" {
        let mut rng = Rng(99);
        let mut bad = 0;
        for _case in 0..200000 {
            let base = match rng.next() % 3 { 0 => 0u32, 1 => u32::MAX - 100, _ => (rng.next() as u32) };
            let mut h = ConfirmHistory::new(RepliconTick::new(base));
            let mut set: BTreeSet<u32> = BTreeSet::new(); // offsets relative to base (wrapping) stored as u32 distance
            set.insert(0);
            let mut last = 0u32;
            for _ in 0..(1 + rng.next() % 12) {
                let d = match rng.next() % 6 { 0 => 1, 1 => 63, 2 => 64, 3 => 65, 4 => (rng.next() % 130) as u32, _ => (rng.next() % 5) as u32 };
                let off = if rng.next() % 3 == 0 { last.saturating_sub(d) } else { last + d };
                h.confirm(RepliconTick::new(base.wrapping_add(off)));
                if off > last { last = off; set.insert(off); } else if last - off < 64 { set.insert(off); }
                // queries
                for _ in 0..6 {
                    let q = (last + 3).saturating_sub((rng.next() % 140) as u32);
                    let expect = if q > last { false } else if last - q >= 64 { true } else { set.contains(&q) };
                    let got = catch_unwind(AssertUnwindSafe(|| h.contains(RepliconTick::new(base.wrapping_add(q)))));
                    if got.as_ref().ok() != Some(&expect) { bad += 1; if bad < 10 { println!("contains mismatch base {base} last {last} q {q} expect {expect} got {got:?} set {set:?}"); } }
                    let q2 = q + (rng.next() % 70) as u32;
                    let expect_any = if q > last { false } else if last - q >= 64 { true } else { (q..=q2.min(last)).any(|t| set.contains(&t)) };
                    let got = catch_unwind(AssertUnwindSafe(|| h.contains_any(RepliconTick::new(base.wrapping_add(q)), RepliconTick::new(base.wrapping_add(q2)))));
                    if got.as_ref().ok() != Some(&expect_any) { bad += 1; if bad < 10 { println!("contains_any mismatch base {base} last {last} q {q}..{q2} expect {expect_any} got {got:?} set {set:?}"); } }
                }
            }
        }
        println!("confirm history mismatches: {bad}");
        // ServerMutateTicks
        let mut bad = 0;
        for _case in 0..100000 {
            let base = match rng.next() % 3 { 0 => 1u32, 1 => u32::MAX - 100, _ => (rng.next() as u32) };
            let mut t = ServerMutateTicks::default();
            // model: map offset -> (count, received); last
            let mut model: std::collections::BTreeMap<i64, (usize, usize)> = Default::default();
            let mut last: i64 = -(base as i64); // default last tick is 0 => offset -base (only meaningful when base small)
            if base > 1000 { continue; } // keep default-0 semantics simple: only small bases
            let mut fired: BTreeSet<i64> = BTreeSet::new();
            for _ in 0..(1 + rng.next() % 15) {
                let d = match rng.next() % 6 { 0 => 1, 1 => 63, 2 => 64, 3 => 65, 4 => (rng.next() % 130) as i64, _ => (rng.next() % 5) as i64 };
                let cur_last = last.max(0);
                let off = if rng.next() % 3 == 0 { (cur_last - d).max(0) } else { cur_last + d };
                let cnt = model.get(&off).map(|m| m.0).unwrap_or(1 + (rng.next() % 3) as usize);
                if model.get(&off).is_some_and(|m| m.1 >= m.0) { continue; }
                let tick_abs = base as i64 + off;
                let last_abs = if last == -(base as i64) { 0 } else { base as i64 + last };
                // model update
                let expect_ret;
                if tick_abs > last_abs {
                    let delta = tick_abs - last_abs;
                    if delta >= 64 { model.clear(); } else { let min_keep = tick_abs - 63; model.retain(|o, _| base as i64 + *o >= min_keep); }
                    last = off;
                    let e = model.entry(off).or_insert((cnt, 0)); e.1 += 1; expect_ret = e.1 == e.0;
                } else if last_abs - tick_abs < 64 {
                    let e = model.entry(off).or_insert((cnt, 0)); e.1 += 1; expect_ret = e.1 == e.0;
                } else { expect_ret = false; }
                let got = catch_unwind(AssertUnwindSafe(|| t.confirm(RepliconTick::new(tick_abs as u32), cnt)));
                if got.as_ref().ok() != Some(&expect_ret) { bad += 1; if bad < 10 { println!("confirm mismatch tick {tick_abs} last {last_abs} cnt {cnt} expect {expect_ret} got {got:?}"); } }
                if expect_ret { fired.insert(off); }
                let last_abs = base as i64 + last;
                for _ in 0..5 {
                    let q = (last_abs + 3 - (rng.next() % 140) as i64).max(0);
                    let expect = if q > last_abs { false } else if last_abs - q >= 64 { true } else { model.get(&(q - base as i64)).is_some_and(|m| m.0 == m.1) };
                    let got = catch_unwind(AssertUnwindSafe(|| t.contains(RepliconTick::new(q as u32))));
                    if got.as_ref().ok() != Some(&expect) { bad += 1; if bad < 10 { println!("mt contains mismatch q {q} last {last_abs} expect {expect} got {got:?}"); } }
                    let q2 = q + (rng.next() % 70) as i64;
                    let expect_any = if q > last_abs { false } else if last_abs - q >= 64 { true } else { (q..=q2.min(last_abs)).any(|x| model.get(&(x - base as i64)).is_some_and(|m| m.0 == m.1)) };
                    let got = catch_unwind(AssertUnwindSafe(|| t.contains_any(RepliconTick::new(q as u32), RepliconTick::new(q2 as u32))));
                    if got.as_ref().ok() != Some(&expect_any) { bad += 1; if bad < 10 { println!("mt contains_any mismatch q {q}..{q2} last {last_abs} expect {expect_any} got {got:?}"); } }
                }
            }
        }
        println!("mutate ticks mismatches: {bad}");
    }
}
