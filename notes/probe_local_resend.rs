use bevy::prelude::*;
use bevy_replicon::prelude::*;
use serde::{Deserialize, Serialize};
use std::panic::{AssertUnwindSafe, catch_unwind};

#[derive(Event, Serialize, Deserialize, Debug, Clone)]
struct Ev(u32);

#[derive(Resource, Default)]
struct Seen(Vec<(Entity, u32)>);

fn mk(auth: AuthMethod) -> App {
    let mut app = App::new();
    app.add_plugins((
        MinimalPlugins,
        RepliconPlugins
            .set(RepliconSharedPlugin { auth_method: auth })
            .set(ServerPlugin {
                tick_policy: TickPolicy::EveryFrame,
                ..Default::default()
            }),
    ))
    .init_resource::<Seen>()
    .add_client_event::<Ev>(Channel::Ordered)
    .add_systems(Update, |mut r: EventReader<FromClient<Ev>>, mut seen: ResMut<Seen>| {
        for e in r.read() {
            seen.0.push((e.client, e.event.0));
        }
    });
    app.finish();
    app
}

fn main() {
    for auth in [AuthMethod::None, AuthMethod::ProtocolCheck] {
        println!("== auth {auth:?}");
        let mut client = mk(auth);
        client.update();
        client.world_mut().resource_mut::<RepliconClient>().set_status(RepliconClientStatus::Connected);
        let r = catch_unwind(AssertUnwindSafe(|| {
            client.update();
            client.world_mut().send_event(Ev(42));
            client.update();
            let sent: Vec<_> = client.world_mut().resource_mut::<RepliconClient>().drain_sent().map(|(c, m)| (c, m.len())).collect();
            println!("sent to remote: {sent:?}; local seen: {:?}", client.world().resource::<Seen>().0);
            client.world_mut().resource_mut::<RepliconClient>().set_status(RepliconClientStatus::Disconnected);
            client.update();
            client.update();
            println!("after disconnect local seen: {:?}", client.world().resource::<Seen>().0);
        }));
        println!("result: {}", if r.is_ok() { "ok" } else { "PANIC" });
    }
}
