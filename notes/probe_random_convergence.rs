use bevy::{ecs::entity::MapEntities, prelude::*, time::TimeUpdateStrategy};
use bevy_replicon::{
    client::{ServerUpdateTick, confirm_history::ConfirmHistory},
    prelude::*,
    server::server_tick::ServerTick,
    shared::server_entity_map::ServerEntityMap,
};
use bytes::Bytes;
use serde::{Deserialize, Serialize};
use std::{
    collections::{BTreeMap, BTreeSet, VecDeque},
    panic::{AssertUnwindSafe, catch_unwind},
    time::Duration,
};

#[derive(Component, Serialize, Deserialize, Clone, PartialEq, Debug)]
struct A(u32);
#[derive(Component, Serialize, Deserialize, Clone, PartialEq, Debug)]
struct B(u32);
#[derive(Component, Serialize, Deserialize, Clone, PartialEq, Debug)]
struct Big(Vec<u8>);
#[derive(Component, Serialize, Deserialize, Clone, PartialEq, Debug, MapEntities)]
struct Link(#[entities] Entity);

struct Rng(u64);
impl Rng {
    fn next(&mut self) -> u64 {
        let mut x = self.0;
        x ^= x << 13;
        x ^= x >> 7;
        x ^= x << 17;
        self.0 = x;
        x
    }
    fn below(&mut self, n: usize) -> usize {
        (self.next() % n as u64) as usize
    }
    fn chance(&mut self, p: f64) -> bool {
        (self.next() % 10000) as f64 / 10000.0 < p
    }
}

fn mk(vis: VisibilityPolicy) -> App {
    let mut app = App::new();
    app.add_plugins((
        MinimalPlugins,
        RepliconPlugins
            .set(RepliconSharedPlugin {
                auth_method: AuthMethod::None,
            })
            .set(ServerPlugin {
                tick_policy: TickPolicy::Manual,
                visibility_policy: vis,
                mutations_timeout: Duration::from_millis(200),
            }),
    ))
    .insert_resource(TimeUpdateStrategy::ManualDuration(Duration::from_millis(10)))
    .replicate::<A>()
    .replicate::<B>()
    .replicate::<Big>()
    .replicate::<Link>();
    app.finish();
    app
}

#[derive(Default)]
struct Chan {
    q: VecDeque<(usize, Bytes)>,
}

struct Cl {
    app: App,
    ent: Entity,
    s2c_upd: VecDeque<Bytes>,
    s2c_mut: Vec<Bytes>,
    c2s: VecDeque<(usize, Bytes)>,
    max_size: usize,
}

struct H {
    rng: Rng,
    server: App,
    clients: Vec<Cl>,
    vis: VisibilityPolicy,
    ents: Vec<Entity>,
    // harness record of visibility: (client idx, entity) -> explicit setting
    vis_rec: BTreeMap<(usize, Entity), bool>,
    log: Vec<String>,
}

fn vis_default(p: VisibilityPolicy) -> bool {
    !matches!(p, VisibilityPolicy::Whitelist)
}

impl H {
    fn new(seed: u64, vis: VisibilityPolicy, nclients: usize) -> Self {
        let mut server = mk(vis);
        server
            .world_mut()
            .resource_mut::<RepliconServer>()
            .set_running(true);
        let mut rng = Rng(seed | 1);
        let mut clients = vec![];
        for _ in 0..nclients {
            let max_size = [60, 200, 1200][rng.below(3)];
            let ent = server.world_mut().spawn(ConnectedClient { max_size }).id();
            let mut app = mk(vis);
            app.world_mut()
                .resource_mut::<RepliconClient>()
                .set_status(RepliconClientStatus::Connected);
            clients.push(Cl {
                app,
                ent,
                s2c_upd: default(),
                s2c_mut: default(),
                c2s: default(),
                max_size,
            });
        }
        Self {
            rng,
            server,
            clients,
            vis,
            ents: vec![],
            vis_rec: default(),
            log: vec![],
        }
    }

    fn collect(&mut self) {
        let msgs: Vec<_> = self
            .server
            .world_mut()
            .resource_mut::<RepliconServer>()
            .drain_sent()
            .collect();
        for (e, ch, m) in msgs {
            let c = self.clients.iter_mut().find(|c| c.ent == e).unwrap();
            match ch {
                0 => c.s2c_upd.push_back(m),
                1 => c.s2c_mut.push(m),
                _ => panic!(),
            }
        }
        for c in &mut self.clients {
            let msgs: Vec<_> = c
                .app
                .world_mut()
                .resource_mut::<RepliconClient>()
                .drain_sent()
                .collect();
            c.c2s.extend(msgs);
        }
    }

    fn server_frame(&mut self, tick: bool) {
        if tick {
            self.server.world_mut().resource_mut::<ServerTick>().increment();
        }
        self.log.push(format!("server_frame tick={tick}"));
        self.server.update();
        self.collect();
    }

    fn client_frame(&mut self, i: usize) {
        self.log.push(format!("client_frame {i}"));
        self.clients[i].app.update();
        self.collect();
    }

    fn alive_repl(&self) -> Vec<Entity> {
        self.ents
            .iter()
            .copied()
            .filter(|&e| {
                self.server
                    .world()
                    .get_entity(e)
                    .is_ok_and(|e| e.contains::<Replicated>())
            })
            .collect()
    }

    fn unlink_targets(&mut self, target: Entity) {
        let ents = self.ents.clone();
        for e in ents {
            if let Ok(mut em) = self.server.world_mut().get_entity_mut(e) {
                if em.get::<Link>().is_some_and(|l| l.0 == target) {
                    em.remove::<Link>();
                }
            }
        }
    }

    fn server_op(&mut self) {
        let alive: Vec<Entity> = self
            .ents
            .iter()
            .copied()
            .filter(|&e| self.server.world().get_entity(e).is_ok())
            .collect();
        let k = self.rng.below(12);
        let pick = if alive.is_empty() {
            None
        } else {
            Some(alive[self.rng.below(alive.len())])
        };
        let v = self.rng.next() as u32 % 1000;
        match (k, pick) {
            (0, _) | (1, _) | (_, None) => {
                let mut e = self.server.world_mut().spawn(Replicated);
                if v % 2 == 0 {
                    e.insert(A(v));
                }
                if v % 3 == 0 {
                    e.insert(B(v));
                }
                if v % 5 == 0 {
                    e.insert(Big(vec![v as u8; (v % 150) as usize]));
                }
                let id = e.id();
                self.ents.push(id);
                self.log.push(format!("spawn {id} v={v}"));
            }
            (2, Some(e)) => {
                self.unlink_targets(e);
                self.server.world_mut().entity_mut(e).despawn();
                self.vis_rec.retain(|(_, x), _| *x != e);
                self.log.push(format!("despawn {e}"));
            }
            (3, Some(e)) => {
                let mut em = self.server.world_mut().entity_mut(e);
                match v % 3 {
                    0 => {
                        em.insert(A(v));
                    }
                    1 => {
                        em.insert(B(v));
                    }
                    _ => {
                        em.insert(Big(vec![v as u8; (v % 150) as usize]));
                    }
                }
                self.log.push(format!("insert {e} kind={} v={v}", v % 3));
            }
            (4, Some(e)) => {
                let mut em = self.server.world_mut().entity_mut(e);
                match v % 4 {
                    0 => {
                        em.remove::<A>();
                    }
                    1 => {
                        em.remove::<B>();
                    }
                    2 => {
                        em.remove::<Big>();
                    }
                    _ => {
                        em.remove::<Link>();
                    }
                }
                self.log.push(format!("remove {e} kind={}", v % 4));
            }
            (5, Some(e)) | (6, Some(e)) | (7, Some(e)) => {
                let mut em = self.server.world_mut().entity_mut(e);
                if let Some(mut a) = em.get_mut::<A>() {
                    a.0 = v;
                }
                if v % 2 == 0 {
                    if let Some(mut b) = em.get_mut::<B>() {
                        b.0 = v;
                    }
                }
                if v % 3 == 0 {
                    if let Some(mut b) = em.get_mut::<Big>() {
                        b.0 = vec![v as u8; (v % 150) as usize];
                    }
                }
                self.log.push(format!("mutate {e} v={v}"));
            }
            (8, Some(e)) if matches!(self.vis, VisibilityPolicy::All) => {
                let has = self.server.world().entity(e).contains::<Replicated>();
                if has {
                    self.unlink_targets(e);
                    self.server.world_mut().entity_mut(e).remove::<Replicated>();
                    self.vis_rec.retain(|(_, x), _| *x != e);
                } else {
                    self.server.world_mut().entity_mut(e).insert(Replicated);
                }
                self.log.push(format!("toggle marker {e} now={}", !has));
            }
            (9, Some(e)) | (10, Some(e)) => {
                if !matches!(self.vis, VisibilityPolicy::All) {
                    let ci = self.rng.below(self.clients.len());
                    let val = v % 2 == 0;
                    let ce = self.clients[ci].ent;
                    self.server
                        .world_mut()
                        .get_mut::<ClientVisibility>(ce)
                        .unwrap()
                        .set_visibility(e, val);
                    // only record for replicated entities; setting for unreplicated is remembered by impl too
                    self.vis_rec.insert((ci, e), val);
                    self.log.push(format!("set_vis client{ci} {e} {val}"));
                }
            }
            (11, Some(e)) => {
                if matches!(self.vis, VisibilityPolicy::All) {
                    let repl = self.alive_repl();
                    if !repl.is_empty() {
                        let t = repl[self.rng.below(repl.len())];
                        if t != e {
                            self.server.world_mut().entity_mut(e).insert(Link(t));
                            self.log.push(format!("link {e} -> {t}"));
                        }
                    }
                }
            }
            _ => {}
        }
    }

    fn net_op(&mut self) {
        let ci = self.rng.below(self.clients.len());
        let k = self.rng.below(6);
        let r = self.rng.next();
        let c = &mut self.clients[ci];
        match k {
            0 | 1 => {
                // deliver some updates in order
                let n = 1 + (r % 3) as usize;
                for _ in 0..n {
                    if let Some(m) = c.s2c_upd.pop_front() {
                        c.app
                            .world_mut()
                            .resource_mut::<RepliconClient>()
                            .insert_received(0usize, m);
                        self.log.push(format!("deliver upd client{ci}"));
                    }
                }
            }
            2 | 3 => {
                if !c.s2c_mut.is_empty() {
                    let i = (r as usize) % c.s2c_mut.len();
                    let m = c.s2c_mut.remove(i);
                    c.app
                        .world_mut()
                        .resource_mut::<RepliconClient>()
                        .insert_received(1usize, m);
                    self.log.push(format!("deliver mut#{i} client{ci}"));
                }
            }
            4 => {
                if !c.s2c_mut.is_empty() {
                    let i = (r as usize) % c.s2c_mut.len();
                    c.s2c_mut.remove(i);
                    self.log.push(format!("drop mut#{i} client{ci}"));
                }
            }
            _ => {
                let n = 1 + (r % 3) as usize;
                for _ in 0..n {
                    if let Some((ch, m)) = c.c2s.pop_front() {
                        self.server
                            .world_mut()
                            .resource_mut::<RepliconServer>()
                            .insert_received(c.ent, ch, m);
                        self.log.push(format!("deliver ack client{ci}"));
                    }
                }
            }
        }
    }

    fn quiesce(&mut self) {
        for _ in 0..12 {
            self.server_frame(true);
            for ci in 0..self.clients.len() {
                let c = &mut self.clients[ci];
                let mut rc = c.app.world_mut().resource_mut::<RepliconClient>();
                while let Some(m) = c.s2c_upd.pop_front() {
                    rc.insert_received(0usize, m);
                }
                for m in c.s2c_mut.drain(..) {
                    rc.insert_received(1usize, m);
                }
                self.client_frame(ci);
                let c = &mut self.clients[ci];
                let mut rs = self.server.world_mut().resource_mut::<RepliconServer>();
                while let Some((ch, m)) = c.c2s.pop_front() {
                    rs.insert_received(c.ent, ch, m);
                }
            }
        }
    }

    fn expected_visible(&self, ci: usize, e: Entity) -> bool {
        self.vis_rec
            .get(&(ci, e))
            .copied()
            .unwrap_or(vis_default(self.vis))
    }

    fn compare(&mut self) -> Vec<String> {
        let mut errs = vec![];
        let repl = self.alive_repl();
        for ci in 0..self.clients.len() {
            let expected: BTreeSet<Entity> = repl
                .iter()
                .copied()
                .filter(|&e| self.expected_visible(ci, e))
                .collect();
            if !matches!(self.vis, VisibilityPolicy::All) {
                let cv = self.server.world().get::<ClientVisibility>(self.clients[ci].ent).unwrap();
                for &e in &repl {
                    if cv.is_visible(e) != self.expected_visible(ci, e) {
                        errs.push(format!("client{ci}: is_visible({e})={} but record says {}", cv.is_visible(e), self.expected_visible(ci, e)));
                    }
                }
            }
            let capp = &mut self.clients[ci].app;
            let map = capp.world().resource::<ServerEntityMap>();
            let to_client: BTreeMap<Entity, Entity> = map.to_client().iter().map(|(a, b)| (*a, *b)).collect();
            let to_server: BTreeMap<Entity, Entity> = map.to_server().iter().map(|(a, b)| (*a, *b)).collect();
            let have: BTreeSet<Entity> = to_client.keys().copied().collect();
            if have != expected {
                errs.push(format!(
                    "client{ci}: mapped set differs: missing {:?} extra {:?}",
                    expected.difference(&have).collect::<Vec<_>>(),
                    have.difference(&expected).collect::<Vec<_>>()
                ));
            }
            for (s, c) in &to_client {
                if to_server.get(c) != Some(s) {
                    errs.push(format!("client{ci}: map not bijective at {s}->{c}"));
                }
            }
            let mut q = capp.world_mut().query_filtered::<Entity, With<Replicated>>();
            let marked: BTreeSet<Entity> = q.iter(capp.world()).collect();
            let mapped_c: BTreeSet<Entity> = to_client.values().copied().collect();
            if marked != mapped_c {
                errs.push(format!(
                    "client{ci}: Replicated-marked set != mapped set: unmarked {:?} unmapped {:?}",
                    mapped_c.difference(&marked).collect::<Vec<_>>(),
                    marked.difference(&mapped_c).collect::<Vec<_>>()
                ));
            }
            for &s in expected.intersection(&have) {
                let c = to_client[&s];
                let sw = self.server.world().entity(s);
                let Ok(cw) = capp.world().get_entity(c) else {
                    errs.push(format!("client{ci}: {s}->{c} dead"));
                    continue;
                };
                if sw.get::<A>() != cw.get::<A>() {
                    errs.push(format!("client{ci}: {s} A {:?} vs {:?}", sw.get::<A>(), cw.get::<A>()));
                }
                if sw.get::<B>() != cw.get::<B>() {
                    errs.push(format!("client{ci}: {s} B {:?} vs {:?}", sw.get::<B>(), cw.get::<B>()));
                }
                if sw.get::<Big>() != cw.get::<Big>() {
                    errs.push(format!("client{ci}: {s} Big differs"));
                }
                match (sw.get::<Link>(), cw.get::<Link>()) {
                    (None, None) => {}
                    (Some(l), Some(m)) => {
                        if to_client.get(&l.0) != Some(&m.0) {
                            errs.push(format!("client{ci}: {s} Link {l:?} vs {m:?}"));
                        }
                    }
                    (a, b) => errs.push(format!("client{ci}: {s} Link {a:?} vs {b:?}")),
                }
                let _ = cw.get::<ConfirmHistory>();
            }
            let _ = capp.world().resource::<ServerUpdateTick>();
        }
        errs
    }
}

fn run(seed: u64, steps: usize, verbose: bool) -> Result<(), String> {
    let mut r = Rng(seed.wrapping_mul(0x9E3779B97F4A7C15) | 1);
    let vis = [VisibilityPolicy::All, VisibilityPolicy::Blacklist, VisibilityPolicy::Whitelist][r.below(3)];
    let n = 1 + r.below(3);
    let mut h = H::new(seed, vis, n);
    let res = catch_unwind(AssertUnwindSafe(|| {
        h.server_frame(true);
        for _ in 0..steps {
            match h.rng.below(10) {
                0..=3 => h.server_op(),
                4 => h.server_frame(true),
                5 => h.server_frame(false),
                6 | 7 => {
                    let ci = h.rng.below(h.clients.len());
                    h.client_frame(ci)
                }
                _ => h.net_op(),
            }
        }
        h.quiesce();
        h.compare()
    }));
    match res {
        Ok(errs) if errs.is_empty() => Ok(()),
        Ok(errs) => {
            if verbose {
                for l in &h.log {
                    println!("  {l}");
                }
            }
            Err(format!("seed {seed} vis {vis:?} n {n}: {errs:?}"))
        }
        Err(_) => {
            if verbose {
                for l in &h.log {
                    println!("  {l}");
                }
            }
            Err(format!("seed {seed} vis {vis:?} n {n}: PANIC"))
        }
    }
}

fn main() {
    let args: Vec<String> = std::env::args().collect();
    let from: u64 = args[1].parse().unwrap();
    let to: u64 = args[2].parse().unwrap();
    let steps: usize = args[3].parse().unwrap();
    let verbose = args.get(4).is_some();
    let mut bad = 0;
    for seed in from..to {
        if let Err(e) = run(seed, steps, verbose) {
            println!("FAIL {e}");
            bad += 1;
        }
    }
    println!("done {} seeds, {bad} failures", to - from);
}
