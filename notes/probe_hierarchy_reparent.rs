//! Scratch probe (build phase), not part of the machinery: replicated `ChildOf` (the documented way to
//! replicate hierarchies), re-parenting travels as a *mutation* (unreliable mutate message) because the
//! relationship component is replaced, not added. If that message is lost or late and the old parent is
//! despawned afterwards, the client despawns the old parent recursively - including the child, which on
//! the server is alive under its new parent. The child's mapping keeps pointing to the dead client entity,
//! every later mutate message for it fails to apply and is (after fix d358be3) never acknowledged:
//! permanent divergence. Run as an integration test of the repository (tests/zz_probe.rs):
//! FAILS on the pinned tree and on the repaired tree ("client lost the child although it is alive and
//! replicated on the server"). Recorded in DESIGN.md section 5 as observation O9 (outside the simulator's
//! domain rule R4: relationships with linked spawn are not replicated as components there).
use bevy::prelude::*;
use bevy_replicon::{prelude::*, server::server_tick::ServerTick, shared::server_entity_map::ServerEntityMap, test_app::ServerTestAppExt};
use serde::{Deserialize, Serialize};

#[derive(Component, Serialize, Deserialize, Clone, PartialEq, Debug)]
struct Hp(u32);

fn mk() -> App {
    let mut app = App::new();
    app.add_plugins((MinimalPlugins, RepliconPlugins.set(ServerPlugin { tick_policy: TickPolicy::Manual, ..Default::default() })))
        .replicate::<ChildOf>()
        .replicate::<Hp>();
    app.finish();
    app
}

fn tick(server: &mut App) {
    server.world_mut().resource_mut::<ServerTick>().increment();
    server.update();
}

#[test]
fn reparent_then_despawn_old_parent_with_lost_mutation() {
    let mut server = mk();
    let mut client = mk();
    server.connect_client(&mut client);
    let p1 = server.world_mut().spawn((Replicated, Hp(1))).id();
    let p2 = server.world_mut().spawn((Replicated, Hp(2))).id();
    let c = server.world_mut().spawn((Replicated, Hp(3), ChildOf(p1))).id();
    tick(&mut server);
    server.exchange_with_client(&mut client);
    client.update();
    server.exchange_with_client(&mut client);
    server.update();
    server.world_mut().entity_mut(c).insert(ChildOf(p2));
    tick(&mut server);
    let lost: Vec<_> = server.world_mut().resource_mut::<RepliconServer>().drain_sent().collect();
    println!("lost {} message(s) on channels {:?}", lost.len(), lost.iter().map(|m| m.1).collect::<Vec<_>>());
    server.world_mut().entity_mut(p1).despawn();
    assert!(server.world().get_entity(c).is_ok(), "child survives on the server");
    for _ in 0..8 {
        tick(&mut server);
        server.exchange_with_client(&mut client);
        client.update();
        server.exchange_with_client(&mut client);
    }
    let map = client.world().resource::<ServerEntityMap>();
    let cc = map.to_client().get(&c).copied();
    let alive = cc.is_some_and(|e| client.world().get_entity(e).is_ok());
    assert!(alive, "client lost the child although it is alive and replicated on the server");
}
