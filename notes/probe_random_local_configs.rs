//! Scratch prototype 6: C13 local handling across configurations and transitions.
use bevy::prelude::*;
use bevy_replicon::prelude::*;
use serde::{Deserialize, Serialize};
use std::{
    collections::BTreeMap,
    panic::{AssertUnwindSafe, catch_unwind},
};

#[derive(Event, Serialize, Deserialize, Clone, Debug)]
struct CEv(u32);
#[derive(Event, Serialize, Deserialize, Clone, Debug)]
struct CTrig(u32);
#[derive(Event, Serialize, Deserialize, Clone, Debug)]
struct SEv(u32);
#[derive(Event, Serialize, Deserialize, Clone, Debug)]
struct STrig(u32);

#[derive(Resource, Default)]
struct Log(Vec<(&'static str, u32, Option<Entity>)>);

struct Rng(u64);
impl Rng {
    fn next(&mut self) -> u64 {
        let mut x = self.0;
        x ^= x << 13;
        x ^= x >> 7;
        x ^= x << 17;
        self.0 = x;
        x
    }
    fn below(&mut self, n: usize) -> usize {
        (self.next() % n as u64) as usize
    }
}

fn mk(dedicated: bool, auth: AuthMethod) -> App {
    let mut app = App::new();
    let plugins = RepliconPlugins
        .set(RepliconSharedPlugin { auth_method: auth })
        .set(ServerPlugin {
            tick_policy: TickPolicy::EveryFrame,
            ..Default::default()
        });
    if dedicated {
        app.add_plugins((
            MinimalPlugins,
            plugins
                .build()
                .disable::<ClientPlugin>()
                .disable::<ClientEventPlugin>(),
        ));
    } else {
        app.add_plugins((MinimalPlugins, plugins));
    }
    app.init_resource::<Log>()
        .add_client_event::<CEv>(Channel::Ordered)
        .add_client_trigger::<CTrig>(Channel::Ordered)
        .add_server_event::<SEv>(Channel::Ordered)
        .add_server_trigger::<STrig>(Channel::Ordered)
        .add_systems(
            Last,
            (
                |mut r: EventReader<FromClient<CEv>>, mut l: ResMut<Log>| {
                    for e in r.read() {
                        l.0.push(("CEv", e.event.0, Some(e.client)));
                    }
                },
                |mut r: EventReader<SEv>, mut l: ResMut<Log>| {
                    for e in r.read() {
                        l.0.push(("SEv", e.0, None));
                    }
                },
            ),
        )
        .add_observer(|t: Trigger<FromClient<CTrig>>, mut l: ResMut<Log>| {
            l.0.push(("CTrig", t.event().event.0, Some(t.event().client)));
        })
        .add_observer(|t: Trigger<STrig>, mut l: ResMut<Log>| {
            l.0.push(("STrig", t.event().0, None));
        });
    app.finish();
    app
}

#[derive(Clone, Copy, PartialEq, Debug)]
enum St {
    Disconnected,
    Connecting,
    Connected,
}

fn run(seed: u64, steps: usize, verbose: bool) -> Result<(), String> {
    let mut rng = Rng(seed.wrapping_mul(0x9E3779B97F4A7C15) | 1);
    let dedicated = rng.below(4) == 0;
    let auth = if rng.below(2) == 0 { AuthMethod::ProtocolCheck } else { AuthMethod::None };
    let mut app = mk(dedicated, auth);
    let mut log: Vec<String> = vec![];
    let mut errs: Vec<String> = vec![];
    let mut client_st = St::Disconnected;
    let mut running = false;
    let mut seq = 0u32;
    // expectations: seq -> (kind, expected local count, must_be_exact, sent remotely allowed)
    let mut pending: Vec<(&'static str, u32)> = vec![]; // emitted, not yet processed by a frame
    let mut expect: BTreeMap<u32, (&'static str, u32, bool, bool)> = BTreeMap::new(); // seq -> (kind, local count so far, expected local)
    let mut remote_budget: BTreeMap<&'static str, i64> = BTreeMap::new();
    let mut force_frame = false;
    let mut server_pending = false;
    let res = catch_unwind(AssertUnwindSafe(|| {
        for _ in 0..steps {
            let op = if force_frame { 9 } else { rng.below(10) };
            force_frame = false;
            match op {
                0 if !dedicated && pending.is_empty() && !server_pending => {
                    // client status transition
                    let next = match (client_st, rng.below(3)) {
                        (St::Disconnected, _) => St::Connecting,
                        (St::Connecting, 0) => St::Disconnected,
                        (St::Connecting, _) => St::Connected,
                        (St::Connected, _) => St::Disconnected,
                    };
                    // a connected/connecting client is never also a running server (unsupported)
                    if next != St::Disconnected && running {
                        continue;
                    }
                    client_st = next;
                    app.world_mut().resource_mut::<RepliconClient>().set_status(match next {
                        St::Disconnected => RepliconClientStatus::Disconnected,
                        St::Connecting => RepliconClientStatus::Connecting,
                        St::Connected => RepliconClientStatus::Connected,
                    });
                    log.push(format!("client -> {next:?}"));
                    force_frame = true;
                }
                1 if pending.is_empty() && !server_pending => {
                    if client_st != St::Disconnected {
                        continue;
                    }
                    running = !running;
                    app.world_mut().resource_mut::<RepliconServer>().set_running(running);
                    log.push(format!("server running={running}"));
                    force_frame = true;
                }
                2 | 3 if !dedicated => {
                    seq += 1;
                    if rng.below(2) == 0 {
                        app.world_mut().send_event(CEv(seq));
                        pending.push(("CEv", seq));
                    } else {
                        app.world_mut().client_trigger(CTrig(seq));
                        pending.push(("CTrig", seq));
                    }
                    log.push(format!("emit client-dir seq={seq} {:?}", pending.last()));
                }
                4 | 5 => {
                    // server-direction only when acting as server or singleplayer
                    if client_st != St::Disconnected {
                        continue;
                    }
                    seq += 1;
                    let (mode, local) = match rng.below(4) {
                        0 => (SendMode::Broadcast, true),
                        1 => (SendMode::BroadcastExcept(SERVER), false),
                        2 => (SendMode::Direct(SERVER), true),
                        _ => (SendMode::BroadcastExcept(Entity::from_raw(9999)), true),
                    };
                    let kind = if rng.below(2) == 0 {
                        app.world_mut().send_event(ToClients { mode, event: SEv(seq) });
                        "SEv"
                    } else {
                        app.world_mut().server_trigger(ToClients { mode, event: STrig(seq) });
                        "STrig"
                    };
                    // a dedicated server is only promised "not twice"
                    expect.insert(seq, (kind, 0, local, false));
                    server_pending = true;
                    log.push(format!("emit server-dir {kind} seq={seq} mode={mode:?} local={local}"));
                }
                _ => {
                    // frame
                    let st_at_frame = client_st;
                    for (kind, s) in pending.drain(..) {
                        match st_at_frame {
                            St::Connected => {
                                *remote_budget.entry(kind).or_default() += 1;
                                expect.insert(s, (kind, 0, false, true));
                            }
                            St::Disconnected => {
                                expect.insert(s, (kind, 0, true, false));
                            }
                            St::Connecting => {
                                // neither path is promised; at most once
                                expect.insert(s, (kind, 0, false, false));
                            }
                        }
                    }
                    app.update();
                    server_pending = false;
                    log.push(format!("frame (client {st_at_frame:?}, running {running})"));
                    if !dedicated {
                        let sent: Vec<_> = app.world_mut().resource_mut::<RepliconClient>().drain_sent().collect();
                        if st_at_frame != St::Connected && !sent.is_empty() {
                            errs.push(format!("client put {} messages on the network while {st_at_frame:?}", sent.len()));
                        }
                        // channels: 0 acks, 1 protocol hash (if ProtocolCheck), then CEv, CTrig
                        let base = if auth == AuthMethod::ProtocolCheck { 2 } else { 1 };
                        for (ch, _) in &sent {
                            let kind = if *ch == base { "CEv" } else if *ch == base + 1 { "CTrig" } else { continue };
                            *remote_budget.entry(kind).or_default() -= 1;
                        }
                        for (k, v) in &remote_budget {
                            if *v != 0 {
                                errs.push(format!("{k}: {v} events emitted while connected were not sent exactly once"));
                            }
                        }
                    }
                    let sent: Vec<_> = app.world_mut().resource_mut::<RepliconServer>().drain_sent().collect();
                    if !running && !sent.is_empty() {
                        errs.push(format!("server put {} messages on the network while stopped", sent.len()));
                    }
                    let recs = std::mem::take(&mut app.world_mut().resource_mut::<Log>().0);
                    for (kind, s, sender) in recs {
                        let Some(e) = expect.get_mut(&s) else {
                            errs.push(format!("unexpected local {kind} {s}"));
                            continue;
                        };
                        e.1 += 1;
                        if e.1 > 1 {
                            errs.push(format!("{kind} {s} observed locally {} times", e.1));
                        }
                        if !e.2 && (kind == "SEv" || kind == "STrig") && !dedicated {
                            errs.push(format!("{kind} {s} observed locally although the server is not a recipient"));
                        }
                        if !e.2 && (kind == "CEv" || kind == "CTrig") && e.3 {
                            // sent remotely and also handled locally
                            errs.push(format!("{kind} {s} handled locally although it was sent to the remote server"));
                        }
                        if (kind == "CEv" || kind == "CTrig") && sender != Some(SERVER) {
                            errs.push(format!("{kind} {s} local sender {sender:?}"));
                        }
                    }
                }
            }
            if !errs.is_empty() {
                break;
            }
        }
        // settle: two more frames in a stable state, then every "exactly once locally" expectation must be met
        if errs.is_empty() {
            for _ in 0..3 {
                let st = client_st;
                for (kind, s) in pending.drain(..) {
                    expect.insert(s, (kind, 0, st == St::Disconnected, false));
                }
                app.update();
                let recs = std::mem::take(&mut app.world_mut().resource_mut::<Log>().0);
                for (kind, s, _) in recs {
                    if let Some(e) = expect.get_mut(&s) {
                        e.1 += 1;
                        if e.1 > 1 {
                            errs.push(format!("{kind} {s} observed locally {} times (settle)", e.1));
                        }
                    }
                }
                if !dedicated {
                    app.world_mut().resource_mut::<RepliconClient>().drain_sent().count();
                }
                app.world_mut().resource_mut::<RepliconServer>().drain_sent().count();
            }
            if !dedicated {
                for (s, (kind, n, local, _)) in &expect {
                    if *local && *n != 1 {
                        errs.push(format!("{kind} {s} expected exactly one local observation, got {n}"));
                    }
                }
            }
        }
    }));
    let desc = format!("seed {seed} dedicated {dedicated} auth {auth:?}");
    let out = |what: String| {
        if verbose {
            for l in &log {
                println!("  {l}");
            }
        }
        Err(format!("{desc}: {what}"))
    };
    match res {
        Ok(()) if errs.is_empty() => Ok(()),
        Ok(()) => out(format!("{:?}", &errs[..errs.len().min(3)])),
        Err(_) => out("PANIC".into()),
    }
}

fn main() {
    let args: Vec<String> = std::env::args().collect();
    let from: u64 = args[1].parse().unwrap();
    let to: u64 = args[2].parse().unwrap();
    let steps: usize = args[3].parse().unwrap();
    let verbose = args.get(4).is_some();
    let mut bad = 0;
    for seed in from..to {
        if let Err(e) = run(seed, steps, verbose) {
            println!("FAIL {e}");
            bad += 1;
        }
    }
    println!("done {} seeds, {bad} failures", to - from);
}
