//! C17: example backend order/exactly-once over loopback
use bevy::prelude::*;
use bevy_replicon::prelude::*;
use bevy_replicon_example_backend::{ExampleClient, ExampleServer, RepliconExampleBackendPlugins};
use serde::{Deserialize, Serialize};

#[derive(Event, Serialize, Deserialize, Debug, Clone)]
struct S1(u32, Vec<u8>);
#[derive(Event, Serialize, Deserialize, Debug, Clone)]
struct S2(u32, Vec<u8>);
#[derive(Event, Serialize, Deserialize, Debug, Clone)]
struct C1(u32, Vec<u8>);

#[derive(Resource, Default)]
struct Got(Vec<(u8, u32, usize)>);

fn mk() -> App {
    let mut app = App::new();
    app.add_plugins((MinimalPlugins, RepliconPlugins.set(ServerPlugin { tick_policy: TickPolicy::EveryFrame, ..Default::default() }), RepliconExampleBackendPlugins))
        .init_resource::<Got>()
        .add_server_event::<S1>(Channel::Ordered).make_event_independent::<S1>()
        .add_server_event::<S2>(Channel::Ordered).make_event_independent::<S2>()
        .add_client_event::<C1>(Channel::Ordered)
        .add_systems(Last, (
            |mut r: EventReader<S1>, mut g: ResMut<Got>| { for e in r.read() { g.0.push((1, e.0, e.1.len())); } },
            |mut r: EventReader<S2>, mut g: ResMut<Got>| { for e in r.read() { g.0.push((2, e.0, e.1.len())); } },
            |mut r: EventReader<FromClient<C1>>, mut g: ResMut<Got>| { for e in r.read() { g.0.push((3, e.event.0, e.event.1.len())); } },
        ));
    app.finish();
    app
}

fn main() {
    let n: u32 = std::env::args().nth(1).map(|s| s.parse().unwrap()).unwrap_or(40);
    let mut server = mk();
    let mut client = mk();
    let es = ExampleServer::new(0).unwrap();
    let port = es.local_addr().unwrap().port();
    server.insert_resource(es);
    server.update();
    client.insert_resource(ExampleClient::new(port).unwrap());
    for _ in 0..5 { client.update(); std::thread::sleep(std::time::Duration::from_millis(5)); server.update(); }
    let mut q = server.world_mut().query::<&ConnectedClient>();
    println!("connected clients: {}", q.iter(server.world()).count());
    let mut bad = 0;
    for round in 0..20 {
        for i in 0..n {
            let seq = round * 1000 + i;
            server.world_mut().send_event(ToClients { mode: SendMode::Broadcast, event: S1(seq, vec![7; (seq % 900) as usize]) });
            server.world_mut().send_event(ToClients { mode: SendMode::Broadcast, event: S2(seq, vec![9; (seq % 300) as usize]) });
            client.world_mut().send_event(C1(seq, vec![3; (seq % 500) as usize]));
            if i % 7 == 0 { server.update(); client.update(); std::thread::sleep(std::time::Duration::from_millis(1)); }
        }
        server.update();
        client.update();
        std::thread::sleep(std::time::Duration::from_millis(20));
        for _ in 0..3 { client.update(); server.update(); std::thread::sleep(std::time::Duration::from_millis(5)); }
        for (app, kinds) in [(&mut client, vec![1u8, 2]), (&mut server, vec![3u8])] {
            let got = std::mem::take(&mut app.world_mut().resource_mut::<Got>().0);
            for k in kinds {
                let seqs: Vec<u32> = got.iter().filter(|g| g.0 == k).map(|g| g.1).collect();
                let want: Vec<u32> = (0..n).map(|i| round * 1000 + i).collect();
                if seqs != want { bad += 1; println!("round {round} kind {k}: got {} events, in order: {}", seqs.len(), seqs.windows(2).all(|w| w[0] < w[1])); }
            }
        }
    }
    println!("bad rounds: {bad}");
}
