use bevy::prelude::*;
use bevy_replicon::{prelude::*, server::server_tick::ServerTick, shared::server_entity_map::ServerEntityMap};
use serde::{Deserialize, Serialize};

#[derive(Component, Serialize, Deserialize, Clone, PartialEq, Debug)]
struct A(u32);

fn mk(vis: VisibilityPolicy) -> App {
    let mut app = App::new();
    app.add_plugins((
        MinimalPlugins,
        bevy::log::LogPlugin { filter: "bevy_replicon=trace".into(), ..Default::default() },
        RepliconPlugins
            .set(RepliconSharedPlugin { auth_method: AuthMethod::None })
            .set(ServerPlugin { tick_policy: TickPolicy::Manual, visibility_policy: vis, ..Default::default() }),
    ))
    .replicate::<A>();
    app.finish();
    app
}

fn xfer(server: &mut App, client: &mut App, ce: Entity) {
    let msgs: Vec<_> = server.world_mut().resource_mut::<RepliconServer>().drain_sent().collect();
    for (e, ch, m) in msgs { assert_eq!(e, ce); client.world_mut().resource_mut::<RepliconClient>().insert_received(ch, m); }
    let msgs: Vec<_> = client.world_mut().resource_mut::<RepliconClient>().drain_sent().collect();
    for (ch, m) in msgs { server.world_mut().resource_mut::<RepliconServer>().insert_received(ce, ch, m); }
}

fn main() {
    let mut server = mk(VisibilityPolicy::Blacklist);
    let mut client = mk(VisibilityPolicy::Blacklist);
    server.world_mut().resource_mut::<RepliconServer>().set_running(true);
    let e = server.world_mut().spawn(Replicated).id(); server.update();
    let ce = server.world_mut().spawn(ConnectedClient { max_size: 1200 }).id();
    client.world_mut().resource_mut::<RepliconClient>().set_status(RepliconClientStatus::Connected);
    for _ in 0..3 {
        server.world_mut().resource_mut::<ServerTick>().increment();
        server.update(); xfer(&mut server, &mut client, ce); client.update(); xfer(&mut server, &mut client, ce);
    }
    println!("session1 mapped: {:?}", client.world().resource::<ServerEntityMap>().to_client().len());
    // disconnect
    server.world_mut().entity_mut(ce).despawn();
    client.world_mut().resource_mut::<RepliconClient>().set_status(RepliconClientStatus::Disconnected);
    server.update(); client.update();
    // reconnect
    let ce2 = server.world_mut().spawn(ConnectedClient { max_size: 1200 }).id();
    println!("old client {ce} new client {ce2}, entity {e}");
    client.world_mut().resource_mut::<RepliconClient>().set_status(RepliconClientStatus::Connected);
    client.update();
    server.update();
    for _ in 0..3 {
        server.world_mut().resource_mut::<ServerTick>().increment();
        server.update(); xfer(&mut server, &mut client, ce2); client.update(); xfer(&mut server, &mut client, ce2);
    }
    println!("session2 mapped: {:?}", client.world().resource::<ServerEntityMap>().to_client().len());
}
