//! Scratch prototype 3: remote events (C04/C05) under hostile schedules.
use bevy::{ecs::entity::MapEntities, prelude::*, time::TimeUpdateStrategy};
use bevy_replicon::{
    client::ServerUpdateTick, prelude::*, server::server_tick::ServerTick,
    shared::server_entity_map::ServerEntityMap,
};
use bytes::Bytes;
use serde::{Deserialize, Serialize};
use std::{
    collections::{BTreeMap, BTreeSet, VecDeque},
    panic::{AssertUnwindSafe, catch_unwind},
    time::Duration,
};

#[derive(Component, Serialize, Deserialize, Clone, PartialEq, Debug)]
struct A(u32);

#[derive(Event, Serialize, Deserialize, Clone, Debug)]
struct SEv(u32);
#[derive(Event, Serialize, Deserialize, Clone, Debug)]
struct SEvU(u32);
#[derive(Event, Serialize, Deserialize, Clone, Debug)]
struct SInd(u32);
#[derive(Event, Serialize, Deserialize, Clone, Debug, MapEntities)]
struct SMap {
    seq: u32,
    #[entities]
    e: Entity,
}
#[derive(Event, Serialize, Deserialize, Clone, Debug)]
struct STrig(u32);

#[derive(Event, Serialize, Deserialize, Clone, Debug)]
struct CEv(u32);
#[derive(Event, Serialize, Deserialize, Clone, Debug)]
struct CEvU(u32);
#[derive(Event, Serialize, Deserialize, Clone, Debug, MapEntities)]
struct CMap {
    seq: u32,
    #[entities]
    e: Entity,
}
#[derive(Event, Serialize, Deserialize, Clone, Debug)]
struct CTrig(u32);

/// (kind, seq, entity (resolved on receiver), targets, update tick at delivery, sender)
#[derive(Clone, Debug)]
struct Rec {
    kind: &'static str,
    seq: u32,
    ent: Option<Entity>,
    targets: Vec<Entity>,
    utick: u32,
    sender: Option<Entity>,
}
#[derive(Resource, Default)]
struct Log(Vec<Rec>);

struct Rng(u64);
impl Rng {
    fn next(&mut self) -> u64 {
        let mut x = self.0;
        x ^= x << 13;
        x ^= x >> 7;
        x ^= x << 17;
        self.0 = x;
        x
    }
    fn below(&mut self, n: usize) -> usize {
        (self.next() % n as u64) as usize
    }
}

fn utick(w: &World) -> u32 {
    w.get_resource::<ServerUpdateTick>().map(|t| t.get()).unwrap_or(0)
}

fn mk() -> App {
    let mut app = App::new();
    app.add_plugins((
        MinimalPlugins,
        RepliconPlugins
            .set(RepliconSharedPlugin {
                auth_method: AuthMethod::None,
            })
            .set(ServerPlugin {
                tick_policy: TickPolicy::Manual,
                ..Default::default()
            }),
    ))
    .insert_resource(TimeUpdateStrategy::ManualDuration(Duration::from_millis(10)))
    .init_resource::<Log>()
    .replicate::<A>()
    .add_server_event::<SEv>(Channel::Ordered)
    .add_server_event::<SEvU>(Channel::Unordered)
    .add_server_event::<SInd>(Channel::Ordered)
    .make_event_independent::<SInd>()
    .add_mapped_server_event::<SMap>(Channel::Ordered)
    .add_server_trigger::<STrig>(Channel::Ordered)
    .add_client_event::<CEv>(Channel::Ordered)
    .add_client_event::<CEvU>(Channel::Unreliable)
    .add_mapped_client_event::<CMap>(Channel::Ordered)
    .add_client_trigger::<CTrig>(Channel::Ordered)
    .add_systems(
        Last,
        (
            |mut r: EventReader<SEv>, mut l: ResMut<Log>, t: Res<ServerUpdateTick>| {
                for e in r.read() {
                    l.0.push(Rec { kind: "SEv", seq: e.0, ent: None, targets: vec![], utick: t.get(), sender: None });
                }
            },
            |mut r: EventReader<SEvU>, mut l: ResMut<Log>, t: Res<ServerUpdateTick>| {
                for e in r.read() {
                    l.0.push(Rec { kind: "SEvU", seq: e.0, ent: None, targets: vec![], utick: t.get(), sender: None });
                }
            },
            |mut r: EventReader<SInd>, mut l: ResMut<Log>, t: Res<ServerUpdateTick>| {
                for e in r.read() {
                    l.0.push(Rec { kind: "SInd", seq: e.0, ent: None, targets: vec![], utick: t.get(), sender: None });
                }
            },
            |mut r: EventReader<SMap>, mut l: ResMut<Log>, t: Res<ServerUpdateTick>| {
                for e in r.read() {
                    l.0.push(Rec { kind: "SMap", seq: e.seq, ent: Some(e.e), targets: vec![], utick: t.get(), sender: None });
                }
            },
            |mut r: EventReader<FromClient<CEv>>, mut l: ResMut<Log>| {
                for e in r.read() {
                    l.0.push(Rec { kind: "CEv", seq: e.event.0, ent: None, targets: vec![], utick: 0, sender: Some(e.client) });
                }
            },
            |mut r: EventReader<FromClient<CEvU>>, mut l: ResMut<Log>| {
                for e in r.read() {
                    l.0.push(Rec { kind: "CEvU", seq: e.event.0, ent: None, targets: vec![], utick: 0, sender: Some(e.client) });
                }
            },
            |mut r: EventReader<FromClient<CMap>>, mut l: ResMut<Log>| {
                for e in r.read() {
                    l.0.push(Rec { kind: "CMap", seq: e.event.seq, ent: Some(e.event.e), targets: vec![], utick: 0, sender: Some(e.client) });
                }
            },
        ),
    )
    .add_observer(|t: Trigger<STrig>, mut l: ResMut<Log>, u: Res<ServerUpdateTick>| {
        l.0.push(Rec { kind: "STrig", seq: t.event().0, ent: None, targets: vec![t.target()], utick: u.get(), sender: None });
    })
    .add_observer(|t: Trigger<FromClient<CTrig>>, mut l: ResMut<Log>| {
        l.0.push(Rec { kind: "CTrig", seq: t.event().event.0, ent: None, targets: vec![t.target()], utick: 0, sender: Some(t.event().client) });
    });
    if std::env::var("FZ_TRACE").is_ok() {
        app.add_plugins(bevy::log::LogPlugin { filter: "bevy_replicon=trace".into(), ..Default::default() });
    }
    app.finish();
    app
}

#[derive(Clone, Copy, Debug, PartialEq)]
enum Mode {
    All,
    Except(usize),
    Direct(usize),
}

#[derive(Debug, Clone)]
struct Sent {
    kind: &'static str,
    seq: u32,
    /// client indices expected to receive
    recipients: BTreeSet<usize>,
    server_ent: Option<Entity>,
    /// server tick in effect at the frame the event was processed (its flush tick is the next tick >= this frame)
    frame: usize,
}

struct Cl {
    app: App,
    ent: Option<Entity>,
    /// per server channel queue
    s2c: BTreeMap<usize, VecDeque<Bytes>>,
    c2s: BTreeMap<usize, VecDeque<Bytes>>,
    connected_frame: usize,
    session: u32,
}

struct H {
    rng: Rng,
    server: App,
    clients: Vec<Cl>,
    ents: Vec<Entity>,
    seq: u32,
    frame: usize,
    server_sent: Vec<Sent>,
    /// pending emitted-but-not-yet-processed server events (emitted between frames)
    pending: Vec<(&'static str, u32, Mode, Option<Entity>)>,
    client_sent: Vec<(usize, u32, &'static str, u32, Option<Entity>)>, // (client, session, kind, seq, client entity)
    log: Vec<String>,
    errs: Vec<String>,
    schan: Vec<Channel>,
    cchan: Vec<Channel>,
    c_last: BTreeMap<(usize, u32, &'static str), u32>,
    s_last: BTreeMap<(usize, u32, &'static str), u32>,
}

impl H {
    fn new(seed: u64, n: usize) -> Self {
        let mut server = mk();
        server.world_mut().resource_mut::<RepliconServer>().set_running(true);
        let ch = server.world().resource::<RepliconChannels>().clone();
        let mut h = Self {
            rng: Rng(seed | 1),
            server,
            clients: (0..n)
                .map(|_| Cl { app: mk(), ent: None, s2c: default(), c2s: default(), connected_frame: 0, session: 0 })
                .collect(),
            ents: vec![],
            seq: 0,
            frame: 0,
            server_sent: vec![],
            pending: vec![],
            client_sent: vec![],
            log: vec![],
            errs: vec![],
            schan: ch.server_channels().to_vec(),
            cchan: ch.client_channels().to_vec(),
            c_last: default(),
            s_last: default(),
        };
        for i in 0..n {
            h.connect(i);
        }
        h
    }

    fn connect(&mut self, i: usize) {
        let ent = self.server.world_mut().spawn(ConnectedClient { max_size: 1200 }).id();
        let c = &mut self.clients[i];
        c.ent = Some(ent);
        c.connected_frame = self.frame + 1; // first server frame that sees it
        c.session += 1;
        c.app.world_mut().resource_mut::<RepliconClient>().set_status(RepliconClientStatus::Connected);
        // run a client frame so that "just connected" resets happen before any event is written
        c.app.update();
        self.log.push(format!("connect client{i} as {ent}"));
    }

    fn disconnect(&mut self, i: usize) {
        if !self.pending.is_empty() {
            return;
        }
        let c = &mut self.clients[i];
        let Some(ent) = c.ent.take() else { return };
        self.server.world_mut().entity_mut(ent).despawn();
        c.app.world_mut().resource_mut::<RepliconClient>().set_status(RepliconClientStatus::Disconnected);
        c.s2c.clear();
        c.c2s.clear();
        let mut q = c.app.world_mut().query_filtered::<Entity, With<Replicated>>();
        let es: Vec<_> = q.iter(c.app.world()).collect();
        for e in es {
            c.app.world_mut().entity_mut(e).despawn();
        }
        self.log.push(format!("disconnect client{i}"));
        self.client_frame(i);
    }

    fn collect(&mut self) {
        let msgs: Vec<_> = self.server.world_mut().resource_mut::<RepliconServer>().drain_sent().collect();
        for (e, ch, m) in msgs {
            let Some(c) = self.clients.iter_mut().find(|c| c.ent == Some(e)) else {
                self.errs.push(format!("message for unknown client {e} ch {ch}"));
                continue;
            };
            c.s2c.entry(ch).or_default().push_back(m);
        }
        for c in &mut self.clients {
            let msgs: Vec<_> = c.app.world_mut().resource_mut::<RepliconClient>().drain_sent().collect();
            for (ch, m) in msgs {
                c.c2s.entry(ch).or_default().push_back(m);
            }
        }
    }

    fn server_frame(&mut self, tick: bool) {
        self.frame += 1;
        if tick {
            self.server.world_mut().resource_mut::<ServerTick>().increment();
        }
        // resolve recipients for events processed in this frame
        let pend = std::mem::take(&mut self.pending);
        for (kind, seq, mode, se) in pend {
            let mut rec = BTreeSet::new();
            for (i, c) in self.clients.iter().enumerate() {
                if c.ent.is_none() {
                    continue;
                }
                let ok = match mode {
                    Mode::All => true,
                    Mode::Except(x) => x != i,
                    Mode::Direct(x) => x == i,
                };
                if ok {
                    rec.insert(i);
                }
            }
            self.server_sent.push(Sent { kind, seq, recipients: rec, server_ent: se, frame: self.frame });
        }
        self.server.update();
        self.log.push(format!("server_frame tick={tick}"));
        self.collect();
        self.check_server_log();
    }

    fn check_server_log(&mut self) {
        let recs = std::mem::take(&mut self.server.world_mut().resource_mut::<Log>().0);
        for r in recs {
            // find the matching sent record
            let Some(sender) = r.sender else { continue };
            let Some(ci) = self.clients.iter().position(|c| c.ent == Some(sender)) else {
                self.errs.push(format!("server got {r:?} from non-connected client"));
                continue;
            };
            let sess = self.clients[ci].session;
            let pos = self.client_sent.iter().position(|(c, s, k, q, _)| *c == ci && *s == sess && *k == r.kind && *q == r.seq);
            match pos {
                None => self.errs.push(format!("server got unexpected/duplicate {r:?}")),
                Some(p) => {
                    if r.kind != "CEvU" {
                        let key = (ci, sess, r.kind);
                        let last = self.c_last.entry(key).or_insert(0);
                        if r.seq <= *last {
                            self.errs.push(format!("server got {r:?} out of order after seq {last}"));
                        }
                        *last = r.seq;
                    }
                    let (_, _, _, _, cent) = self.client_sent.remove(p);
                    if r.kind == "CMap" || r.kind == "CTrig" {
                        let map = self.clients[ci].app.world().resource::<ServerEntityMap>();
                        let want = cent.and_then(|e| map.to_server().get(&e).copied());
                        let got = if r.kind == "CMap" { r.ent } else { r.targets.first().copied() };
                        if want.is_some() && want != got {
                            self.errs.push(format!("{} entity {got:?} expected {want:?}", r.kind));
                        }
                    }
                }
            }
        }
    }

    fn client_frame(&mut self, i: usize) {
        self.clients[i].app.update();
        self.log.push(format!("client_frame {i}"));
        self.collect();
        let recs = std::mem::take(&mut self.clients[i].app.world_mut().resource_mut::<Log>().0);
        for r in recs {
            if r.sender.is_some() {
                let sess = self.clients[i].session;
                if r.sender != Some(SERVER) || self.clients[i].ent.is_some() {
                    self.errs.push(format!("client{i} saw FromClient {r:?}"));
                } else if let Some(p) = self.client_sent.iter().position(|(c, s, k, q, _)| *c == i && *s == sess && *k == r.kind && *q == r.seq) {
                    self.client_sent.remove(p);
                } else {
                    self.errs.push(format!("client{i} locally re-handled {r:?} that was already sent/handled"));
                }
                continue;
            }
            let pos = self.server_sent.iter().position(|s| s.kind == r.kind && s.seq == r.seq && s.recipients.contains(&i));
            let Some(p) = pos else {
                self.errs.push(format!("client{i} got unexpected/duplicate {r:?}"));
                continue;
            };
            if r.kind != "SEvU" {
                let key = (i, self.clients[i].session, r.kind);
                let last = self.s_last.entry(key).or_insert(0);
                if r.seq <= *last {
                    self.errs.push(format!("client{i} got {r:?} out of order after seq {last}"));
                }
                *last = r.seq;
            }
            let s = &mut self.server_sent[p];
            s.recipients.remove(&i);
            if r.kind == "SMap" || r.kind == "STrig" {
                let map = self.clients[i].app.world().resource::<ServerEntityMap>();
                let got = if r.kind == "SMap" { r.ent } else { r.targets.first().copied() };
                let want = s.server_ent.and_then(|e| map.to_client().get(&e).copied());
                if got != want || want.is_none() {
                    self.errs.push(format!("client{i} {r:?}: entity resolved to {got:?}, map says {want:?}"));
                }
            }
        }
    }

    fn emit_server(&mut self) {
        self.seq += 1;
        let seq = self.seq;
        let n = self.clients.len();
        let mode = match self.rng.below(3) {
            0 => Mode::All,
            1 => Mode::Except(self.rng.below(n)),
            _ => Mode::Direct(self.rng.below(n)),
        };
        let to_send_mode = |m: Mode, cl: &Vec<Cl>| match m {
            Mode::All => Some(SendMode::Broadcast),
            Mode::Except(i) => cl[i].ent.map(SendMode::BroadcastExcept),
            Mode::Direct(i) => cl[i].ent.map(SendMode::Direct),
        };
        let Some(sm) = to_send_mode(mode, &self.clients) else { return };
        let kind = self.rng.below(5);
        // maybe spawn a fresh entity to reference
        let mut se = None;
        if kind >= 3 {
            let e = if self.rng.below(2) == 0 || self.ents.is_empty() {
                let e = self.server.world_mut().spawn((Replicated, A(seq))).id();
                self.ents.push(e);
                e
            } else {
                self.ents[self.rng.below(self.ents.len())]
            };
            if self.server.world().get_entity(e).is_err() {
                return;
            }
            se = Some(e);
        }
        let w = self.server.world_mut();
        let k = match kind {
            0 => {
                w.send_event(ToClients { mode: sm, event: SEv(seq) });
                "SEv"
            }
            1 => {
                w.send_event(ToClients { mode: sm, event: SEvU(seq) });
                "SEvU"
            }
            2 => {
                w.send_event(ToClients { mode: sm, event: SInd(seq) });
                "SInd"
            }
            3 => {
                w.send_event(ToClients { mode: sm, event: SMap { seq, e: se.unwrap() } });
                "SMap"
            }
            _ => {
                w.server_trigger_targets(ToClients { mode: sm, event: STrig(seq) }, se.unwrap());
                "STrig"
            }
        };
        self.pending.push((k, seq, mode, se));
        self.log.push(format!("emit {k} seq={seq} mode={mode:?} ent={se:?}"));
    }

    fn emit_client(&mut self) {
        let i = self.rng.below(self.clients.len());
        if self.clients[i].ent.is_none() {
            return;
        }
        self.seq += 1;
        let seq = self.seq;
        let sess = self.clients[i].session;
        let kind = self.rng.below(4);
        let c = &mut self.clients[i];
        let mapped: Vec<Entity> = c.app.world().resource::<ServerEntityMap>().to_server().keys().copied().collect();
        let (k, ce) = match kind {
            0 => {
                c.app.world_mut().send_event(CEv(seq));
                ("CEv", None)
            }
            1 => {
                c.app.world_mut().send_event(CEvU(seq));
                ("CEvU", None)
            }
            2 => {
                if mapped.is_empty() {
                    return;
                }
                let e = mapped[self.rng.below(mapped.len())];
                c.app.world_mut().send_event(CMap { seq, e });
                ("CMap", Some(e))
            }
            _ => {
                if mapped.is_empty() {
                    return;
                }
                let e = mapped[self.rng.below(mapped.len())];
                c.app.world_mut().client_trigger_targets(CTrig(seq), e);
                ("CTrig", Some(e))
            }
        };
        self.client_sent.push((i, sess, k, seq, ce));
        self.log.push(format!("client{i} emit {k} seq={seq}"));
    }

    fn net_op(&mut self) {
        let ci = self.rng.below(self.clients.len());
        if self.clients[ci].ent.is_none() {
            return;
        }
        let r = self.rng.next();
        if self.rng.below(2) == 0 {
            // server -> client
            let chans: Vec<usize> = self.clients[ci].s2c.iter().filter(|(_, q)| !q.is_empty()).map(|(c, _)| *c).collect();
            if chans.is_empty() {
                return;
            }
            let ch = chans[self.rng.below(chans.len())];
            let kind = self.schan[ch];
            let c = &mut self.clients[ci];
            let q = c.s2c.get_mut(&ch).unwrap();
            let m = match kind {
                Channel::Ordered => q.pop_front().unwrap(),
                Channel::Unordered => q.remove((r as usize) % q.len()).unwrap(),
                Channel::Unreliable => {
                    let m = q.remove((r as usize) % q.len()).unwrap();
                    if r % 3 == 0 {
                        return;
                    }
                    m
                }
            };
            c.app.world_mut().resource_mut::<RepliconClient>().insert_received(ch, m);
            self.log.push(format!("deliver s2c ch{ch} client{ci}"));
        } else {
            let chans: Vec<usize> = self.clients[ci].c2s.iter().filter(|(_, q)| !q.is_empty()).map(|(c, _)| *c).collect();
            if chans.is_empty() {
                return;
            }
            let ch = chans[self.rng.below(chans.len())];
            let kind = self.cchan[ch];
            let c = &mut self.clients[ci];
            let q = c.c2s.get_mut(&ch).unwrap();
            let m = match kind {
                Channel::Ordered => q.pop_front().unwrap(),
                Channel::Unordered => q.remove((r as usize) % q.len()).unwrap(),
                Channel::Unreliable => {
                    let m = q.remove((r as usize) % q.len()).unwrap();
                    if r % 3 == 0 {
                        // dropped: forget expectation
                        return;
                    }
                    m
                }
            };
            self.server.world_mut().resource_mut::<RepliconServer>().insert_received(c.ent.unwrap(), ch, m);
            self.log.push(format!("deliver c2s ch{ch} client{ci}"));
        }
    }

    fn quiesce(&mut self) {
        for _ in 0..8 {
            self.server_frame(true);
            for ci in 0..self.clients.len() {
                if self.clients[ci].ent.is_none() {
                    continue;
                }
                let c = &mut self.clients[ci];
                let mut rc = c.app.world_mut().resource_mut::<RepliconClient>();
                for (ch, q) in c.s2c.iter_mut() {
                    while let Some(m) = q.pop_front() {
                        rc.insert_received(*ch, m);
                    }
                }
                self.client_frame(ci);
                let c = &mut self.clients[ci];
                let mut rs = self.server.world_mut().resource_mut::<RepliconServer>();
                for (ch, q) in c.c2s.iter_mut() {
                    while let Some(m) = q.pop_front() {
                        rs.insert_received(c.ent.unwrap(), *ch, m);
                    }
                }
            }
        }
        self.server_frame(true);
        // everything reliable must have arrived
        for s in &self.server_sent {
            if s.kind == "SEvU" || s.kind == "SEv" || s.kind == "SInd" || s.kind == "SMap" || s.kind == "STrig" {
                let still: Vec<usize> = s
                    .recipients
                    .iter()
                    .copied()
                    .filter(|&i| self.clients[i].ent.is_some() && self.clients[i].connected_frame <= s.frame)
                    .collect();
                let ent_ok = s.server_ent.map_or(true, |e| self.server.world().get_entity(e).is_ok());
                if !still.is_empty() && ent_ok {
                    self.errs.push(format!("undelivered server event {s:?} for {still:?}"));
                }
            }
        }
        for (c, sess, k, q, _) in &self.client_sent {
            if *k != "CEvU" && *k != "CMap" && *k != "CTrig" && self.clients[*c].ent.is_some() && self.clients[*c].session == *sess {
                self.errs.push(format!("undelivered client event client{c} {k} {q}"));
            }
        }
    }
}

fn run(seed: u64, steps: usize, verbose: bool) -> Result<(), String> {
    let mut r = Rng(seed.wrapping_mul(0x9E3779B97F4A7C15) | 1);
    let n = 1 + r.below(3);
    let mut h = H::new(seed, n);
    let res = catch_unwind(AssertUnwindSafe(|| {
        h.server_frame(true);
        for _ in 0..steps {
            match h.rng.below(20) {
                0..=3 => h.emit_server(),
                4..=5 => h.emit_client(),
                6 | 7 => h.server_frame(true),
                8 | 9 => h.server_frame(false),
                10..=12 => {
                    let ci = h.rng.below(h.clients.len());
                    h.client_frame(ci)
                }
                13 => {
                    if h.rng.below(5) == 0 {
                        let ci = h.rng.below(h.clients.len());
                        if h.clients[ci].ent.is_some() {
                            h.disconnect(ci)
                        } else {
                            h.connect(ci)
                        }
                    }
                }
                14 => {
                    if !h.ents.is_empty() && h.rng.below(3) == 0 {
                        let e = h.ents[h.rng.below(h.ents.len())];
                        if let Ok(em) = h.server.world_mut().get_entity_mut(e) {
                            em.despawn();
                        }
                    }
                }
                _ => h.net_op(),
            }
            if !h.errs.is_empty() {
                break;
            }
        }
        if h.errs.is_empty() {
            h.quiesce();
        }
    }));
    let desc = format!("seed {seed} n {n}");
    let fail = |h: &H, what: String| {
        if verbose {
            for l in &h.log {
                println!("  {l}");
            }
        }
        Err(format!("{desc}: {what}"))
    };
    match res {
        Ok(()) if h.errs.is_empty() => Ok(()),
        Ok(()) => fail(&h, format!("{:?}", &h.errs[..h.errs.len().min(3)])),
        Err(_) => fail(&h, "PANIC".into()),
    }
}

fn main() {
    let args: Vec<String> = std::env::args().collect();
    let from: u64 = args[1].parse().unwrap();
    let to: u64 = args[2].parse().unwrap();
    let steps: usize = args[3].parse().unwrap();
    let verbose = args.get(4).is_some();
    let mut bad = 0;
    for seed in from..to {
        if let Err(e) = run(seed, steps, verbose) {
            println!("FAIL {e}");
            bad += 1;
        }
    }
    println!("done {} seeds, {bad} failures", to - from);
}
